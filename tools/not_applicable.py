# NOT_YET[pid] = reason   (properties not claimed at the moment)
