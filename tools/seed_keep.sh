#!/bin/bash
# usage: seed_keep.sh <ID> <name> "<which checks caught it / result text>"  -- copies a verified seed into /verif/seeded/<name>/
set -eu
id=$1; name=$2; caught=$3; wt=${4:-/tmp/seed-$id}
d=/verif/seeded/$name; mkdir -p $d
cp $wt/SEED/patch.diff $d/patch.diff
rm -rf $d/demo; cp -r $wt/SEED/demo $d/demo
python3 - "$wt/SEED/meta.json" "$d/meta.json" "$caught" "/tmp/seedv-$id.out" <<'PY'
import json,sys
m=json.load(open(sys.argv[1]))
m['verified_by_me']=open(sys.argv[4]).read().splitlines()[-12:]
m['checks_run_against_it']=sys.argv[3]
json.dump(m,open(sys.argv[2],'w'),indent=1)
PY
echo kept $d
