#!/usr/bin/env python3
"""Validates MANIFEST.json and every evidence file against the schemas (run with python3-vt)."""
import json, jsonschema, glob, sys
ok = True
def v(path, schema):
    global ok
    try:
        jsonschema.validate(json.load(open(path)), json.load(open(schema)))
    except Exception as e:
        ok = False
        print("INVALID", path, str(e)[:300])
v('/verif/MANIFEST.json', '/root/.vp/MANIFEST.schema.json')
for f in sorted(glob.glob('/verif/evidence/*.json')):
    v(f, '/root/.vp/EVIDENCE.schema.json')
print("ok" if ok else "FAILED")
sys.exit(0 if ok else 1)
