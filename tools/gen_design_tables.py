#!/usr/bin/env python3
"""Rewrites the generated tables of DESIGN.md (between <!-- BEGIN:x --> and <!-- END:x --> markers):
   fixes  - one row per fix commit / known finding from known_findings.json
   seeds  - one row per kept seeded change from seeded/*/meta.json
   runs   - what the last run of every check covered, from evidence/*.json"""
import json, glob, re, subprocess, collections
D = '/verif/DESIGN.md'
s = open(D).read()

def put(name, body):
    global s
    a, b = f'<!-- BEGIN:{name} -->', f'<!-- END:{name} -->'
    assert a in s and b in s, name
    s = s[:s.index(a) + len(a)] + '\n' + body.rstrip() + '\n' + s[s.index(b):]

def esc(t):
    return str(t).replace('|', '\\|').replace('\n', ' ')

# fixes / known findings
k = json.load(open('/verif/known_findings.json'))
rows = collections.OrderedDict()
for e in k:
    key = (e['property'], e['status'], e.get('commit'))
    rows.setdefault(key, []).append(e)
out = ['| property | status | commit in /repo | what failed (first listed key) | keys |', '|---|---|---|---|---|']
for (p, st, c), es in sorted(rows.items(), key=lambda x: (x[0][0], x[0][1], x[0][2] or '')):
    d = es[0]['description']
    if len(d) > 420:
        d = d[:417] + '...'
    out.append(f"| {p} | {st} | {c or '-'} | {esc(d)} | {len(es)} |")
put('fixes', '\n'.join(out))

# seeds
out = ['| kept change (`/verif/seeded/<dir>`) | property it breaks | what it needs to manifest | result of the checks |', '|---|---|---|---|']
for f in sorted(glob.glob('/verif/seeded/*/meta.json')):
    m = json.load(open(f))
    name = f.split('/')[3]
    needs = m.get('needs', '')
    if len(needs) > 300:
        needs = needs[:297] + '...'
    res = m.get('checks_run_against_it', '')
    if len(res) > 420:
        res = res[:417] + '...'
    out.append(f"| {name} | {m.get('property')} | {esc(needs)} | {esc(res)} |")
put('seeds', '\n'.join(out))

# last runs
out = ['| check | tier of last run | level | states | transitions | traces/cases executed on the code | complete below cap | wall s |', '|---|---|---|---|---|---|---|---|']
for f in sorted(glob.glob('/verif/evidence/C*.json')):
    e = json.load(open(f)); c = e['coverage']
    tv = c.get('traces_validated_against_impl') or c.get('cases_executed') or c.get('evaluations') or c.get('inputs_enumerated') or ''
    out.append(f"| {e['property_id']} | {e['tier']} | {e['level']} | {c.get('states','')} | {c.get('transitions','')} | {tv} | {c.get('exhaustive','')} | {round(e['wall_s'],1)} |")
put('runs', '\n'.join(out))
open(D, 'w').write(s)
print('DESIGN.md tables regenerated')
