#!/usr/bin/env python3
"""Prints the prompt given to a fresh sub-agent asked for a property-breaking change (seeded mutant).
usage: seed_prompt.py <PROPERTY-ID> <worktree-dir> [variant-hint]"""
import json, sys
pid, wt = sys.argv[1], sys.argv[2]
hint = sys.argv[3] if len(sys.argv) > 3 else ""
p = next(json.loads(l) for l in open('/verif/properties.jsonl') if json.loads(l)['id'] == pid)
anch = p.get('anchors', {})
files = ", ".join(anch.get('files', []))
mech = "; ".join(f"{m['name']} ({m['where']})" for m in anch.get('mechanism', []))
print(f"""You are helping to evaluate a verification effort for SierraDB (a distributed append-only event store in Rust). Your job is to play the role of a developer who introduces a subtle regression.

You have your own scratch git worktree of the repository at {wt} (already created; work ONLY inside it; do not touch /repo or /verif and do not read anything under /verif). The sandbox has no network; use `cargo ... --offline`. Set CARGO_TARGET_DIR={wt}/target for everything you build.

The semantic property at stake:

  id: {pid}
  title: {p['title']}
  statement: {p['statement']}
  quantified over: {p['quantifier']['text']}
  code it is anchored in: {files}
  mechanisms: {mech}

Task: make ONE realistic change to the repository source (not to tests) that BREAKS this property while (a) the workspace still compiles and (b) the existing test suite still passes. The change should look like something a developer could plausibly commit (a refactor gone slightly wrong, an "optimisation", an off-by-one, a reordered pair of statements, a dropped re-check, a cache kept too long, a too-early acknowledgement ...). It must need something SPECIFIC to manifest — a particular interleaving, a crash or fault at a particular point, a multi-step sequence of operations, an unusual input, or two cooperating sites that each look fine alone — NOT something ordinary use would expose at once (if any normal append/read immediately misbehaves, it is too blunt). Keep the diff small (typically < 30 lines). Do not add cfg flags, features, or test-only code paths; do not edit existing tests. {hint}

Then write a DEMONSTRATION: a Rust integration test (or a small example/bin program) placed in a NEW file inside the worktree (e.g. crates/<crate>/tests/seed_{pid.lower()}.rs) that FAILS with your change and PASSES on the original code. The demonstration must be deterministic (no reliance on lucky timing; if it needs a fault or a crash image, construct it explicitly, e.g. by truncating/copying files, or by driving the public API in the needed order).

Required verification, which you must actually run and report:
 1. `cd {wt} && cargo build --workspace --offline` succeeds with the change.
 2. The existing suite passes with the change: `cd {wt} && cargo nextest run --workspace --no-fail-fast --test-threads 8 --offline` (the one known-flaky test `tests::subscriptions::test_subscriptions` may be ignored; everything else must pass; your new demonstration test will of course fail — run the suite before adding it, or exclude it with `-E 'not test(seed_)'`). The full build+run takes several minutes; while iterating you may restrict to the crates you touched, but run the whole suite once at the end.
 3. The demonstration fails with the change and passes without it (use `git stash` / `git diff > patch; git checkout -- <files>` to compare).

Deliverables, all inside {wt}/SEED/ :
  - patch.diff      : `git diff` of the source change ONLY (not the demonstration), applicable with `git apply` at the repository root.
  - demo/           : the demonstration file(s), with their repository-relative path preserved (e.g. demo/crates/sierradb/tests/seed_{pid.lower()}.rs), plus demo/RUN.txt with the exact command that runs it.
  - meta.json       : {{"property": "{pid}", "summary": "...what was changed...", "needs": "...what specific interleaving/crash/sequence/input is needed to manifest...", "ran": ["...commands you ran and their outcome..."]}}
Leave the worktree in the state: source change applied + demonstration file present (uncommitted). Do not delete the target directory. In your final answer give a short description of the change, what it needs to manifest, and the outcomes of steps 1-3. Be honest: if you could not find a change that passes the existing tests and breaks the property, say so.""")
