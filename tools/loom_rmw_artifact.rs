use loom::sync::atomic::{AtomicU32, Ordering::*};
use loom::sync::Arc;
fn main() {
    let n = std::sync::Arc::new(std::sync::atomic::AtomicU64::new(0));
    let bad = std::sync::Arc::new(std::sync::atomic::AtomicU64::new(0));
    let (n2, bad2) = (n.clone(), bad.clone());
    loom::model(move || {
        n2.fetch_add(1, std::sync::atomic::Ordering::Relaxed);
        let s = Arc::new(AtomicU32::new(1));
        let s1 = s.clone();
        let t = loom::thread::spawn(move || {
            s1.store(3, Release);
            s1.compare_exchange(3, 5, AcqRel, Acquire).is_ok()
        });
        let a = s.compare_exchange(1, 2, AcqRel, Acquire).is_ok();
        let v = s.load(Acquire);
        let r = if v == 3 { s.compare_exchange(3, 4, AcqRel, Acquire).is_ok() } else { false };
        let c = t.join().unwrap();
        if c && r {
            bad2.fetch_add(1, std::sync::atomic::Ordering::Relaxed);
        }
        let _ = a;
    });
    println!("executions {} both-RMWs-read-the-same-store {}", n.load(std::sync::atomic::Ordering::Relaxed), bad.load(std::sync::atomic::Ordering::Relaxed));
}
