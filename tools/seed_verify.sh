#!/bin/bash
# usage: seed_verify.sh <ID> [worktree]   -- re-verifies a sub-agent's seeded change in its scratch worktree
# 1. demo fails with the patch   2. existing suite passes with the patch   3. demo passes without the patch
set -u
id=$1; wt=${2:-/tmp/seed-$id}
cd "$wt" || exit 2
export CARGO_TARGET_DIR=$wt/target CARGO_NET_OFFLINE=true
run=$(grep -v '^\s*$' SEED/demo/RUN.txt | grep -E "cargo" | head -1)
echo "== demo command: $run"
git checkout -q -- . 2>/dev/null; git apply SEED/patch.diff || { echo "PATCH DOES NOT APPLY"; exit 2; }
echo "== [1] demo WITH patch (must fail)"
( eval "$run" ) > /tmp/seedv-$id-with.log 2>&1; with=$?
tail -5 /tmp/seedv-$id-with.log
echo "== [2] existing suite WITH patch"
cargo nextest run --workspace --no-fail-fast --test-threads 8 --offline -E 'not test(seed_)' > /tmp/seedv-$id-suite.log 2>&1
grep -E "Summary|FAIL \[" /tmp/seedv-$id-suite.log | sort -u | head -12
echo "== [3] demo WITHOUT patch (must pass)"
git apply -R SEED/patch.diff
( eval "$run" ) > /tmp/seedv-$id-without.log 2>&1; without=$?
tail -3 /tmp/seedv-$id-without.log
git apply SEED/patch.diff
echo "RESULT id=$id demo_with_patch_exit=$with demo_without_patch_exit=$without"
