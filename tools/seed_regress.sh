#!/bin/bash
# usage: seed_regress.sh [dir-name ...]   -- applies every kept seeded change to /repo's working tree (never committed), runs the quick
# check(s) that are expected to catch it, reverts, and prints one line per change.  /repo must be clean and no other check may run meanwhile.
cd /verif || exit 2
if [ -n "$(git -C /repo status --short)" ]; then echo "/repo is not clean"; exit 2; fi
dirs=("$@"); [ ${#dirs[@]} -eq 0 ] && dirs=($(ls -d seeded/*/ | xargs -n1 basename))
for d in "${dirs[@]}"; do
  prop=$(python3 -c "import json;print(json.load(open('/verif/seeded/$d/meta.json'))['property'])")
  case "$d" in
    C01-rollover-sync-without-index-publish) checks="C15" ;;
    C10-*) checks="C12" ;;
    C11-skipped-*) checks="C12" ;;
    C11-stale-*) checks="C11" ;;  # expected miss, see DESIGN.md (third round)
    *) checks="$prop" ;;
  esac
  git -C /repo apply "/verif/seeded/$d/patch.diff" || { echo "$d: PATCH DOES NOT APPLY"; continue; }
  for c in $checks; do
    out=$(./check $c quick 2>&1); code=$?
    keys=$(echo "$out" | grep -E "^  key:" | sed 's/^  key: //' | head -3 | tr '\n' ' ')
    capped=$(echo "$out" | grep -c "cap .* hit")
    echo "$d: ./check $c quick -> exit $code capped=$capped keys: $keys"
  done
  git -C /repo checkout -- .
done
git -C /repo status --short | head -3
