#!/usr/bin/env python3
"""Generates /verif/MANIFEST.json from the table below (kept in one place so that the manifest is
always valid and in step with what ./check can actually run)."""
import json, subprocess, sys

ALL = [f"C{i:02d}" for i in range(1, 27)]

# id -> dict(engine, category, technique, text, note, design_ref)
CHECKS = {}

def add(pid, engine, category, technique, text, note):
    CHECKS[pid] = dict(engine=engine, category=category, technique=technique, text=text, note=note)

exec(open('/verif/tools/checks_table.py').read())

NOT_YET = {}
exec(open('/verif/tools/not_applicable.py').read())

def repo_hook_commits():
    try:
        out = subprocess.check_output(['git', '-C', '/repo', 'log', '--format=%h %s'], text=True)
    except Exception:
        return []
    return [l.split()[0] for l in out.splitlines() if l.split(' ', 1)[1].startswith('verif-hooks:')]

manifest = {
    "version": 1,
    "setup_cmd": "cd /verif/engines && for e in seglogx dbx topox parsex cbloom clusterx protox; do CARGO_NET_OFFLINE=true cargo build --offline --profile verif -p $e || exit 1; done",
    "hooks": {
        "guard": "cargo feature `verif-hooks` on seglog / sierradb / sierradb-cluster (default off); cargo feature `verif-loom` on sierradb-cluster (declared, never enabled by the repo; the C26 engine #[path]-includes circuit_breaker.rs with its own feature of that name)",
        "enable": "engines under /verif/engines depend on the /repo crates by path with features = [\"verif-hooks\"]; ./check rebuilds them from /repo's working tree",
        "baseline_off_cmd": "cd /repo && cargo nextest run --workspace --no-fail-fast --test-threads 8 --offline || cargo test --workspace --no-fail-fast --offline",
        "source_commits": repo_hook_commits(),
        "add_only": True,
    },
    "engines": [
        {"name": "seglogx", "path": "engines/seglogx", "serves_properties": ["C17", "C18"], "kind_free_text": "exhaustive record/mutation enumeration and BFS over op sequences on the real seglog Writer/Reader"},
        {"name": "dbx", "path": "engines/dbx", "serves_properties": ["C01", "C02", "C03", "C04", "C05", "C06", "C15", "C16", "C19", "C20", "C23", "C25"], "kind_free_text": "history / crash-image / seam-schedule enumeration on the real sierradb Database against a reference event-store model"},
        {"name": "topox", "path": "engines/topox", "serves_properties": ["C13", "C14", "C24"], "kind_free_text": "exhaustive configuration enumeration and explicit-state search over real TopologyManager values"},
        {"name": "clusterx", "path": "engines/clusterx", "serves_properties": ["C07", "C08", "C09", "C12", "C22"], "kind_free_text": "history enumeration against real cluster actors (single process)"},
        {"name": "protox", "path": "engines/protox", "serves_properties": ["C10", "C11"], "kind_free_text": "explicit-state search of the replicated write protocol model built on the repo's own data structures, with conformance replay"},
        {"name": "parsex", "path": "engines/parsex", "serves_properties": ["C21"], "kind_free_text": "bounded-grammar enumeration through the real command parsers"},
        {"name": "cbloom", "path": "engines/cbloom", "serves_properties": ["C26"], "kind_free_text": "loom exploration of the real circuit_breaker.rs"},
    ],
    "checks": [],
    "not_applicable": [],
    "notes": "See DESIGN.md. Every check decides by exhaustive enumeration within stated bounds; evidence files state the bounds actually completed. known_findings.json lists genuine defects recorded rather than repaired, and the fix: commits made.",
}
for pid in ALL:
    if pid in CHECKS:
        c = CHECKS[pid]
        manifest["checks"].append({
            "property_id": pid,
            "quick_cmd": f"./check {pid} quick",
            "thorough_cmd": f"./check {pid} thorough",
            "evidence_file": f"/verif/evidence/{pid}.json",
            "replay_cmd_template": f"./check {pid} --replay {{path}}",
            "engine": c["engine"],
            "level_claimed": {"category": c["category"], "text": c["text"], "design_ref": f"DESIGN.md §4 {pid}"},
            "level_note": c["note"],
            "technique": c["technique"],
        })
    else:
        manifest["not_applicable"].append({"property_id": pid, "reason": NOT_YET.get(pid, "check not built yet (work in progress; see DESIGN.md §8)")})
json.dump(manifest, open('/verif/MANIFEST.json', 'w'), indent=1)
print(f"MANIFEST.json: {len(manifest['checks'])} checks, {len(manifest['not_applicable'])} not claimed")
