//! Process-level sharding of a fixed enumeration of independent cases.
//!
//! The parent enumerates the cases (deterministically), spawns `jobs()` copies of its own
//! executable with `--worker k J`, each of which enumerates the same list and executes the cases
//! with index ≡ k (mod J) one after the other (so process-global hooks, e.g. pause controllers, see
//! one case at a time).  Workers report over stdout as JSON lines.  A worker that dies (abort,
//! `process::exit` inside the code under test, stack overflow) is reported as a violation for the
//! case it was running and is respawned behind that case.

use std::collections::BTreeSet;
use std::io::{BufRead, BufReader, Write};
use std::path::PathBuf;
use std::process::{Command, Stdio};
use std::time::{Duration, Instant};

use serde_json::{Value, json};

use crate::{Ctx, machinery_fail};

pub struct WorkerSpec {
    pub k: usize,
    pub j: usize,
    pub start_after: Option<usize>,
    pub deadline: Instant,
    cur_file: PathBuf,
}

/// Parses `--worker k J [--after i] [--deadline secs] --cur <file>` out of the extra args.
pub fn worker_spec(extra: &[String]) -> Option<WorkerSpec> {
    let pos = extra.iter().position(|a| a == "--worker")?;
    let k = extra[pos + 1].parse().ok()?;
    let j = extra[pos + 2].parse().ok()?;
    let mut start_after = None;
    let mut deadline = Instant::now() + Duration::from_secs(3600);
    let mut cur_file = PathBuf::from("/dev/null");
    let mut i = pos + 3;
    while i < extra.len() {
        match extra[i].as_str() {
            "--after" => {
                start_after = extra[i + 1].parse().ok();
                i += 2;
            }
            "--deadline" => {
                let s: f64 = extra[i + 1].parse().unwrap_or(3600.0);
                deadline = Instant::now() + Duration::from_secs_f64(s.max(0.0));
                i += 2;
            }
            "--cur" => {
                cur_file = PathBuf::from(&extra[i + 1]);
                i += 2;
            }
            _ => i += 1,
        }
    }
    Some(WorkerSpec { k, j, start_after, deadline, cur_file })
}

/// What a worker accumulates while executing its share.
#[derive(Default)]
pub struct WorkerOut {
    pub evals: u64,
    pub transitions: u64,
    pub cases_done: u64,
    pub states: BTreeSet<u64>,
    pub outcomes: BTreeSet<String>,
    pub samples: Vec<Value>,
    pub counters: std::collections::BTreeMap<String, u64>,
    pub capped: bool,
    /// replay mode: collect violations here instead of writing protocol lines
    pub collected: Option<Vec<(String, String, Value)>>,
    /// set by the case runner when this process should be replaced by a fresh one (resource leaks
    /// of the code under test)
    pub retire: bool,
}

impl WorkerOut {
    pub fn violation(&mut self, key: &str, desc: &str, case: Value) {
        if let Some(c) = &mut self.collected {
            c.push((key.to_string(), desc.to_string(), case));
            return;
        }
        let line = json!({"t": "v", "key": key, "desc": desc, "case": case});
        let mut o = std::io::stdout().lock();
        let _ = writeln!(o, "{line}");
        let _ = o.flush();
    }
    pub fn state(&mut self, h: u64) {
        if self.states.len() < 2_000_000 {
            self.states.insert(h);
        }
    }
    pub fn outcome(&mut self, s: impl Into<String>) {
        if self.outcomes.len() < 10_000 {
            self.outcomes.insert(s.into());
        }
    }
    pub fn sample(&mut self, v: Value) {
        if self.samples.len() < 3 {
            self.samples.push(v);
        }
    }
    pub fn count(&mut self, k: &str, n: u64) {
        *self.counters.entry(k.to_string()).or_insert(0) += n;
    }
    fn emit_final(&self, more: bool, last_pos: Option<usize>) {
        let line = json!({
            "t": "s", "more": more, "last_pos": last_pos, "evals": self.evals, "transitions": self.transitions, "cases": self.cases_done,
            "states": self.states.iter().collect::<Vec<_>>(), "outcomes": self.outcomes.iter().collect::<Vec<_>>(),
            "samples": self.samples, "counters": self.counters, "capped": self.capped,
        });
        let mut o = std::io::stdout().lock();
        let _ = writeln!(o, "{line}");
        let _ = o.flush();
    }
}

/// Runs the worker's share.  `order[i]` is the case index executed i-th overall.
pub fn worker_loop(spec: &WorkerSpec, order: &[usize], mut run_case: impl FnMut(usize, &mut WorkerOut)) -> ! {
    let mut out = WorkerOut::default();
    // The code under test may leak threads / descriptors per case (e.g. reference cycles that keep
    // thread pools alive); a worker therefore retires after a bounded number of cases and the parent
    // starts a fresh one behind it.
    let max_cases: u64 = std::env::var("VERIF_WORKER_MAX_CASES").ok().and_then(|s| s.parse().ok()).unwrap_or(150);
    let mut last_pos = None;
    let mut more = false;
    for (pos, &case_idx) in order.iter().enumerate() {
        if pos % spec.j != spec.k {
            continue;
        }
        if let Some(a) = spec.start_after {
            if pos <= a {
                continue;
            }
        }
        if Instant::now() >= spec.deadline {
            out.capped = true;
            break;
        }
        if out.cases_done >= max_cases || out.retire {
            more = true;
            break;
        }
        let _ = std::fs::write(&spec.cur_file, format!("{pos}"));
        run_case(case_idx, &mut out);
        out.cases_done += 1;
        last_pos = Some(pos);
    }
    let _ = std::fs::write(&spec.cur_file, "done");
    out.emit_final(more, last_pos);
    remove_own_scratch();
    std::process::exit(0)
}

#[derive(Default)]
pub struct Merged {
    pub evals: u64,
    pub transitions: u64,
    pub cases_done: u64,
    pub states: BTreeSet<u64>,
    pub outcomes: BTreeSet<String>,
    pub samples: Vec<Value>,
    pub counters: std::collections::BTreeMap<String, u64>,
    pub capped: bool,
    pub worker_deaths: u64,
}

/// Parent side.  `args_for_worker` are the leading arguments (`<ID> <tier> ...`).  `describe(pos)`
/// renders the case at position `pos` of the order for a crash report.
pub fn parent_run(
    ctx: &Ctx,
    n_cases: usize,
    args_for_worker: &[String],
    cap: Duration,
    death_key: &str,
    describe: impl Fn(usize) -> Value + Sync,
) -> Merged {
    sweep_dead_scratch();
    let exe = std::env::current_exe().unwrap_or_else(|e| machinery_fail(&format!("current_exe: {e}")));
    let j = crate::jobs().min(n_cases.max(1));
    let scratch = scratch_base().join(format!("verif-workers-{}", std::process::id()));
    let _ = std::fs::create_dir_all(&scratch);
    let deadline = Instant::now() + cap;
    let merged = std::sync::Mutex::new(Merged::default());
    std::thread::scope(|s| {
        for k in 0..j {
            let exe = &exe;
            let scratch = &scratch;
            let merged = &merged;
            let describe = &describe;
            s.spawn(move || {
                let mut after: Option<usize> = None;
                let mut deaths = 0;
                loop {
                    let cur = scratch.join(format!("w{k}.cur"));
                    let _ = std::fs::remove_file(&cur);
                    let mut cmd = Command::new(exe);
                    cmd.args(args_for_worker);
                    cmd.args(["--worker", &k.to_string(), &j.to_string()]);
                    if let Some(a) = after {
                        cmd.args(["--after", &a.to_string()]);
                    }
                    let left = deadline.saturating_duration_since(Instant::now()).as_secs_f64();
                    cmd.args(["--deadline", &format!("{left}")]);
                    cmd.args(["--cur", cur.to_str().unwrap()]);
                    cmd.stdout(Stdio::piped()).stdin(Stdio::null());
                    let mut child = cmd.spawn().unwrap_or_else(|e| machinery_fail(&format!("spawn worker: {e}")));
                    let stdout = child.stdout.take().unwrap();
                    let mut got_final = false;
                    let mut more_after: Option<usize> = None;
                    for line in BufReader::new(stdout).lines() {
                        let Ok(line) = line else { break };
                        let Ok(v) = serde_json::from_str::<Value>(&line) else {
                            eprintln!("worker {k}: {line}");
                            continue;
                        };
                        match v["t"].as_str() {
                            Some("v") => ctx.violation(v["key"].as_str().unwrap_or("?"), v["desc"].as_str().unwrap_or(""), v["case"].clone()),
                            Some("s") => {
                                got_final = true;
                                let mut m = merged.lock().unwrap();
                                m.evals += v["evals"].as_u64().unwrap_or(0);
                                m.transitions += v["transitions"].as_u64().unwrap_or(0);
                                m.cases_done += v["cases"].as_u64().unwrap_or(0);
                                for h in v["states"].as_array().into_iter().flatten() {
                                    if let Some(h) = h.as_u64() {
                                        m.states.insert(h);
                                    }
                                }
                                for o in v["outcomes"].as_array().into_iter().flatten() {
                                    if let Some(o) = o.as_str() {
                                        m.outcomes.insert(o.to_string());
                                    }
                                }
                                for smp in v["samples"].as_array().into_iter().flatten() {
                                    if m.samples.len() < 12 {
                                        m.samples.push(smp.clone());
                                    }
                                }
                                if let Some(c) = v["counters"].as_object() {
                                    for (kk, vv) in c {
                                        *m.counters.entry(kk.clone()).or_insert(0) += vv.as_u64().unwrap_or(0);
                                    }
                                }
                                m.capped |= v["capped"].as_bool().unwrap_or(false);
                                if v["more"].as_bool().unwrap_or(false) {
                                    more_after = v["last_pos"].as_u64().map(|x| x as usize);
                                }
                            }
                            _ => {}
                        }
                    }
                    let status = child.wait();
                    let ok = matches!(&status, Ok(s) if s.success());
                    if ok && got_final {
                        match more_after {
                            Some(p) => {
                                after = Some(p);
                                continue;
                            }
                            None => break,
                        }
                    }
                    // a worker that stopped with the machinery exit code found a defect of the harness, not of the code
                    // under test: pass that on as what it is (its message is on stderr)
                    if matches!(&status, Ok(s) if s.code() == Some(2)) {
                        machinery_fail(&format!("worker {k} reported a machinery failure (see its MACHINERY-FAILURE line above)"));
                    }
                    // the worker died: which case was it running?
                    deaths += 1;
                    let pos = std::fs::read_to_string(&cur).ok().and_then(|s| s.trim().parse::<usize>().ok());
                    match pos {
                        Some(p) => {
                            ctx.violation(
                                death_key,
                                &format!("the process died ({status:?}) while executing case #{p}: {}", describe(p)),
                                json!({"died": true, "case": describe(p)}),
                            );
                            merged.lock().unwrap().worker_deaths += 1;
                            after = Some(p);
                        }
                        None => machinery_fail(&format!("worker {k} died before starting a case: {status:?}")),
                    }
                    if deaths > 25 {
                        machinery_fail("worker died more than 25 times");
                    }
                }
            });
        }
    });
    let _ = std::fs::remove_dir_all(&scratch);
    sweep_dead_scratch();
    merged.into_inner().unwrap()
}

/// Removes this process's own scratch directories (names carry the pid).
pub fn remove_own_scratch() {
    let me = std::process::id().to_string();
    let Ok(rd) = std::fs::read_dir(scratch_base()) else { return };
    for e in rd.flatten() {
        let name = e.file_name().to_string_lossy().into_owned();
        if name.starts_with("verif-") && !name.starts_with("verif-workers-") && name.split('-').any(|p| p == me) {
            let _ = std::fs::remove_dir_all(e.path());
        }
    }
}

/// Removes every `verif-*` scratch directory under the scratch base whose owning process (the first
/// number in its name) is no longer alive.  Workers leave through `process::exit`, so their last
/// scratch directories are swept by the parent when a run ends (and at the start of the next one).
pub fn sweep_dead_scratch() {
    let Ok(rd) = std::fs::read_dir(scratch_base()) else { return };
    for e in rd.flatten() {
        let name = e.file_name().to_string_lossy().into_owned();
        if !name.starts_with("verif-") {
            continue;
        }
        let pid: Option<u32> = name.split('-').find_map(|p| p.parse().ok());
        if let Some(pid) = pid {
            if pid != std::process::id() && !std::path::Path::new(&format!("/proc/{pid}")).exists() {
                let _ = std::fs::remove_dir_all(e.path());
            }
        }
    }
}

pub fn scratch_base() -> PathBuf {
    std::env::var("VERIF_TMP").map(PathBuf::from).unwrap_or_else(|_| {
        let shm = PathBuf::from("/dev/shm");
        if shm.is_dir() { shm } else { std::env::temp_dir() }
    })
}
