//! The boring reference model of the event store: per partition a list of events, per stream a
//! list of (partition, index).  Append = validate the expectations exactly as property C02 states
//! them, then push.  No segments, no indexes, no I/O errors.

use std::collections::BTreeMap;

#[derive(Clone, Copy, Debug, PartialEq, Eq, Hash)]
pub enum Exp {
    Any,
    Exists,
    Empty,
    Exact(u64),
}

#[derive(Clone, Debug, PartialEq, Eq)]
pub struct MNewEvent {
    pub id: u128,
    pub stream: String,
    pub exp: Exp,
    pub name: String,
    pub timestamp: u64,
    pub metadata: Vec<u8>,
    pub payload: Vec<u8>,
}

#[derive(Clone, Debug, PartialEq, Eq)]
pub struct MTx {
    pub partition_key: u128,
    pub partition_id: u16,
    pub tx_id: u128,
    pub events: Vec<MNewEvent>,
    pub exp_seq: Exp,
    pub confirmation_count: u8,
}

#[derive(Clone, Debug, PartialEq, Eq)]
pub struct MEvent {
    pub id: u128,
    pub partition_key: u128,
    pub partition_id: u16,
    pub tx_id: u128,
    /// index of the transaction in `Model::txs`
    pub tx_index: usize,
    pub stream: String,
    pub version: u64,
    pub seq: u64,
    pub name: String,
    pub timestamp: u64,
    pub metadata: Vec<u8>,
    pub payload: Vec<u8>,
    pub confirmation_count: u8,
}

#[derive(Clone, Debug, PartialEq, Eq)]
pub enum Reject {
    WrongVersion { stream: String },
    WrongSequence,
    PartitionKeyMismatch { stream: String },
}

#[derive(Clone, Debug, PartialEq, Eq)]
pub struct Accepted {
    pub first_seq: u64,
    pub last_seq: u64,
    /// latest version per stream touched by the transaction
    pub stream_versions: BTreeMap<String, u64>,
    /// per event (version, seq)
    pub per_event: Vec<(u64, u64)>,
}

#[derive(Clone, Debug, Default)]
pub struct MStream {
    pub partition_key: u128,
    /// (partition id, index into the partition's event list)
    pub events: Vec<(u16, usize)>,
}

#[derive(Clone, Debug, Default)]
pub struct Model {
    pub partitions: BTreeMap<u16, Vec<MEvent>>,
    pub streams: BTreeMap<String, MStream>,
    /// every accepted transaction: (partition id, index range in the partition list)
    pub txs: Vec<(u16, std::ops::Range<usize>)>,
}

fn holds(exp: Exp, current: Option<u64>) -> bool {
    match (exp, current) {
        (Exp::Any, _) => true,
        (Exp::Exists, c) => c.is_some(),
        (Exp::Empty, c) => c.is_none(),
        (Exp::Exact(v), Some(c)) => v == c,
        (Exp::Exact(_), None) => false,
    }
}

impl Model {
    pub fn new() -> Self {
        Self::default()
    }

    pub fn stream_version(&self, stream: &str) -> Option<u64> {
        self.streams.get(stream).and_then(|s| s.events.len().checked_sub(1)).map(|v| v as u64)
    }

    pub fn partition_sequence(&self, partition: u16) -> Option<u64> {
        self.partitions.get(&partition).and_then(|p| p.len().checked_sub(1)).map(|v| v as u64)
    }

    pub fn stream_events(&self, stream: &str) -> Vec<&MEvent> {
        match self.streams.get(stream) {
            Some(s) => s.events.iter().map(|(p, i)| &self.partitions[p][*i]).collect(),
            None => vec![],
        }
    }

    pub fn partition_events(&self, partition: u16) -> &[MEvent] {
        self.partitions.get(&partition).map(|v| v.as_slice()).unwrap_or(&[])
    }

    pub fn tx_events(&self, tx_index: usize) -> &[MEvent] {
        let (p, r) = &self.txs[tx_index];
        &self.partitions[p][r.clone()]
    }

    pub fn find_event(&self, id: u128) -> Option<&MEvent> {
        self.partitions.values().flat_map(|v| v.iter()).find(|e| e.id == id)
    }

    pub fn total_events(&self) -> usize {
        self.partitions.values().map(|v| v.len()).sum()
    }

    /// Would the transaction be accepted?  Expectations of later events of the same transaction are
    /// judged against the stream state including the earlier events of that transaction.
    pub fn check(&self, tx: &MTx) -> Result<(), Reject> {
        let mut cur: BTreeMap<&str, Option<u64>> = BTreeMap::new();
        for ev in &tx.events {
            let c = *cur.entry(ev.stream.as_str()).or_insert_with(|| self.stream_version(&ev.stream));
            if let Some(s) = self.streams.get(&ev.stream) {
                if !s.events.is_empty() && s.partition_key != tx.partition_key {
                    return Err(Reject::PartitionKeyMismatch { stream: ev.stream.clone() });
                }
            }
            if !holds(ev.exp, c) {
                return Err(Reject::WrongVersion { stream: ev.stream.clone() });
            }
            cur.insert(ev.stream.as_str(), Some(c.map(|v| v + 1).unwrap_or(0)));
        }
        if !holds(tx.exp_seq, self.partition_sequence(tx.partition_id)) {
            return Err(Reject::WrongSequence);
        }
        Ok(())
    }

    pub fn apply(&mut self, tx: &MTx) -> Result<Accepted, Reject> {
        self.check(tx)?;
        let tx_index = self.txs.len();
        let part = self.partitions.entry(tx.partition_id).or_default();
        let start = part.len();
        let mut per_event = Vec::new();
        let mut stream_versions = BTreeMap::new();
        for ev in &tx.events {
            let s = self.streams.entry(ev.stream.clone()).or_default();
            if s.events.is_empty() {
                s.partition_key = tx.partition_key;
            }
            let version = s.events.len() as u64;
            let seq = part.len() as u64;
            s.events.push((tx.partition_id, part.len()));
            part.push(MEvent {
                id: ev.id,
                partition_key: tx.partition_key,
                partition_id: tx.partition_id,
                tx_id: tx.tx_id,
                tx_index,
                stream: ev.stream.clone(),
                version,
                seq,
                name: ev.name.clone(),
                timestamp: ev.timestamp,
                metadata: ev.metadata.clone(),
                payload: ev.payload.clone(),
                confirmation_count: tx.confirmation_count,
            });
            per_event.push((version, seq));
            stream_versions.insert(ev.stream.clone(), version);
        }
        let end = part.len();
        self.txs.push((tx.partition_id, start..end));
        Ok(Accepted { first_seq: start as u64, last_seq: end as u64 - 1, stream_versions, per_event })
    }

    /// A compact signature of the model state (for counting distinct states).
    pub fn signature(&self) -> u64 {
        let mut h: u64 = 0xcbf29ce484222325;
        let mut mix = |x: u64| {
            h ^= x;
            h = h.wrapping_mul(0x100000001b3);
        };
        for (p, evs) in &self.partitions {
            mix(*p as u64 + 1);
            for e in evs {
                mix(crate::fnv(e.stream.as_bytes()));
                mix(e.version);
                mix(e.tx_index as u64);
                mix(e.payload.len() as u64);
            }
        }
        h
    }
}
