//! Shared plumbing for all verification engines: tier/seed handling, evidence files,
//! violation / known-finding reporting, replay artefacts, a small parallel driver and
//! deterministic pseudo-random payload bytes.
//!
//! Exit codes used by every engine binary:
//!   0  property held on everything explored (or only listed known findings were seen)
//!   1  at least one violation that is not a listed known finding (a `VIOLATION` line was printed)
//!   2  machinery failure (bad arguments, I/O error in the harness, non-deterministic replay, ...)

use std::collections::{BTreeMap, BTreeSet};
use std::path::PathBuf;
use std::sync::atomic::{AtomicUsize, Ordering};
use std::sync::Mutex;
use std::time::{Duration, Instant};

use serde::Deserialize;
use serde_json::{Value, json};

pub mod model;
pub mod workers;

pub const VERIF_DIR: &str = "/verif";

#[derive(Clone, Copy, Debug, PartialEq, Eq)]
pub enum Tier {
    Quick,
    Thorough,
}

impl Tier {
    pub fn as_str(&self) -> &'static str {
        match self {
            Tier::Quick => "quick",
            Tier::Thorough => "thorough",
        }
    }
    pub fn is_thorough(&self) -> bool {
        matches!(self, Tier::Thorough)
    }
}

#[derive(Debug, Deserialize, Clone)]
pub struct KnownFinding {
    pub property: String,
    pub key: String,
    pub status: String, // "known" | "fixed"
    #[serde(default)]
    pub commit: Option<String>,
    #[serde(default)]
    pub description: String,
}

pub fn load_known_findings() -> Vec<KnownFinding> {
    let path = PathBuf::from(VERIF_DIR).join("known_findings.json");
    match std::fs::read_to_string(&path) {
        Ok(s) => match serde_json::from_str::<Vec<KnownFinding>>(&s) {
            Ok(v) => v,
            Err(e) => machinery_fail(&format!("known_findings.json does not parse: {e}")),
        },
        Err(_) => Vec::new(),
    }
}

pub fn machinery_fail(msg: &str) -> ! {
    eprintln!("MACHINERY-FAILURE: {msg}");
    std::process::exit(2)
}

/// Command line accepted by every engine: `<bin> <PROPERTY> [quick|thorough] [--replay <file>]`.
pub struct Args {
    pub property: String,
    pub tier: Tier,
    pub replay: Option<PathBuf>,
    pub extra: Vec<String>,
}

pub fn parse_args() -> Args {
    let mut it = std::env::args().skip(1);
    let property = it
        .next()
        .unwrap_or_else(|| machinery_fail("usage: <engine> <PROPERTY> [quick|thorough] [--replay <file>]"));
    let mut tier = match std::env::var("VERIF_TIER").ok().as_deref() {
        Some("thorough") => Tier::Thorough,
        _ => Tier::Quick,
    };
    let mut replay = None;
    let mut extra = Vec::new();
    while let Some(a) = it.next() {
        match a.as_str() {
            "quick" => tier = Tier::Quick,
            "thorough" => tier = Tier::Thorough,
            "--replay" => {
                replay = Some(PathBuf::from(
                    it.next().unwrap_or_else(|| machinery_fail("--replay needs a path")),
                ))
            }
            _ => extra.push(a),
        }
    }
    Args { property, tier, replay, extra }
}

pub fn seed_from_env() -> u64 {
    std::env::var("VERIF_SEED").ok().and_then(|s| s.parse::<i64>().ok()).map(|v| v as u64).unwrap_or(0)
}

pub fn jobs() -> usize {
    std::env::var("VERIF_JOBS")
        .ok()
        .and_then(|s| s.parse().ok())
        .unwrap_or_else(|| std::thread::available_parallelism().map(|n| n.get()).unwrap_or(4))
        .max(1)
}

struct Inner {
    /// key -> (count, first description)
    violations: BTreeMap<String, (u64, String, PathBuf)>,
    collected: Vec<(String, String, Value)>,
    known: BTreeMap<String, (u64, String)>,
    notes: Vec<String>,
}

pub struct Ctx {
    pub property: String,
    pub tier: Tier,
    pub seed: u64,
    pub level: &'static str,
    start: Instant,
    known_list: Vec<KnownFinding>,
    inner: Mutex<Inner>,
    pub replay_mode: bool,
    /// child processes of an engine: violations are collected (first case of every key), not reported; the parent
    /// process reports them
    pub collect_only: bool,
}

impl Ctx {
    pub fn new(property: &str, tier: Tier, level: &'static str) -> Ctx {
        let known_list = load_known_findings().into_iter().filter(|k| k.property == property).collect();
        Ctx {
            property: property.to_string(),
            tier,
            seed: seed_from_env(),
            level,
            start: Instant::now(),
            known_list,
            inner: Mutex::new(Inner { violations: BTreeMap::new(), known: BTreeMap::new(), notes: Vec::new(), collected: Vec::new() }),
            replay_mode: false,
            collect_only: false,
        }
    }

    pub fn elapsed(&self) -> Duration {
        self.start.elapsed()
    }

    /// True once `cap` of wall time has been used since the context was created.
    pub fn over(&self, cap: Duration) -> bool {
        self.start.elapsed() >= cap
    }

    pub fn note(&self, s: impl Into<String>) {
        let s = s.into();
        eprintln!("note: {s}");
        self.inner.lock().unwrap().notes.push(s);
    }

    fn is_known(&self, key: &str) -> bool {
        self.known_list.iter().any(|k| k.status == "known" && k.key == key)
    }

    /// Report one failing case. `key` is the *class signature* of the failure (what is matched
    /// against known_findings.json); `replay` is a self-contained description of the case from
    /// which `--replay` re-executes it.  Only the first case of every key produces a replay file and
    /// an output line; later ones are counted.
    pub fn violation(&self, key: &str, description: &str, replay: Value) {
        let mut inner = self.inner.lock().unwrap();
        if self.collect_only {
            if !inner.collected.iter().any(|(k, _, _)| k == key) {
                inner.collected.push((key.to_string(), description.to_string(), replay));
            }
            return;
        }
        if self.is_known(key) {
            let e = inner.known.entry(key.to_string()).or_insert((0, description.to_string()));
            e.0 += 1;
            if e.0 == 1 {
                println!("KNOWN-FINDING: property={} {} :: {}", self.property, key, description);
            }
            return;
        }
        if let Some(e) = inner.violations.get_mut(key) {
            e.0 += 1;
            return;
        }
        let dir = PathBuf::from(VERIF_DIR).join("replays");
        let _ = std::fs::create_dir_all(&dir);
        let h = fnv(key.as_bytes());
        let path = dir.join(format!("{}-{:016x}.json", self.property, h));
        let body = json!({
            "property": self.property,
            "key": key,
            "description": description,
            "case": replay,
        });
        if let Err(e) = std::fs::write(&path, serde_json::to_vec_pretty(&body).unwrap()) {
            machinery_fail(&format!("cannot write replay file {}: {e}", path.display()));
        }
        println!("VIOLATION property={} replay={}", self.property, path.display());
        println!("  key: {key}");
        println!("  what: {description}");
        inner.violations.insert(key.to_string(), (1, description.to_string(), path));
    }

    /// (key, description, replay case) of what a collect-only context gathered
    pub fn collected_violations(&self) -> Vec<(String, String, Value)> {
        self.inner.lock().unwrap().collected.clone()
    }

    pub fn violation_count(&self) -> usize {
        self.inner.lock().unwrap().violations.len()
    }

    pub fn known_count(&self) -> usize {
        self.inner.lock().unwrap().known.len()
    }

    /// Write the evidence file and exit with the verdict's exit code.
    pub fn finish(&self, mut coverage: Value, assumptions: Vec<String>) -> ! {
        workers::remove_own_scratch();
        let inner = self.inner.lock().unwrap();
        let wall = self.start.elapsed().as_secs_f64();
        if let Some(obj) = coverage.as_object_mut() {
            obj.insert(
                "known_findings_matched".into(),
                json!(inner.known.iter().map(|(k, v)| json!({"key": k, "cases": v.0, "what": v.1})).collect::<Vec<_>>()),
            );
            obj.insert(
                "violation_keys".into(),
                json!(inner
                    .violations
                    .iter()
                    .map(|(k, v)| json!({"key": k, "cases": v.0, "what": v.1, "replay": v.2}))
                    .collect::<Vec<_>>()),
            );
            if !inner.notes.is_empty() {
                obj.insert("notes".into(), json!(inner.notes));
            }
        }
        let ev = json!({
            "property_id": self.property,
            "tier": self.tier.as_str(),
            "seed": self.seed as i64,
            "level": self.level,
            "coverage": coverage,
            "assumptions": assumptions,
            "wall_s": wall,
            "violations": inner.violations.len(),
        });
        if !self.replay_mode {
            let dir = PathBuf::from(VERIF_DIR).join("evidence");
            let _ = std::fs::create_dir_all(&dir);
            let path = dir.join(format!("{}.json", self.property));
            if let Err(e) = std::fs::write(&path, serde_json::to_vec_pretty(&ev).unwrap()) {
                machinery_fail(&format!("cannot write evidence {}: {e}", path.display()));
            }
        }
        let nv = inner.violations.len();
        let nk = inner.known.len();
        println!(
            "RESULT property={} tier={} violations={} known_findings={} wall_s={:.1}",
            self.property,
            self.tier.as_str(),
            nv,
            nk,
            wall
        );
        std::process::exit(if nv > 0 { 1 } else { 0 })
    }
}

/// Load the `case` object of a replay file.
pub fn load_replay(path: &std::path::Path) -> Value {
    let s = std::fs::read_to_string(path)
        .unwrap_or_else(|e| machinery_fail(&format!("cannot read replay {}: {e}", path.display())));
    let v: Value =
        serde_json::from_str(&s).unwrap_or_else(|e| machinery_fail(&format!("replay does not parse: {e}")));
    v.get("case").cloned().unwrap_or(v)
}

pub fn fnv(b: &[u8]) -> u64 {
    let mut h: u64 = 0xcbf29ce484222325;
    for &x in b {
        h ^= x as u64;
        h = h.wrapping_mul(0x100000001b3);
    }
    h
}

/// Deterministic xorshift64* byte stream (incompressible payloads, fixed per seed).
pub struct XorShift(pub u64);
impl XorShift {
    pub fn new(seed: u64) -> Self {
        XorShift(seed.wrapping_mul(0x9E3779B97F4A7C15) | 1)
    }
    pub fn next_u64(&mut self) -> u64 {
        let mut x = self.0;
        x ^= x >> 12;
        x ^= x << 25;
        x ^= x >> 27;
        self.0 = x;
        x.wrapping_mul(0x2545F4914F6CDD1D)
    }
    pub fn bytes(&mut self, n: usize) -> Vec<u8> {
        let mut v = Vec::with_capacity(n + 8);
        while v.len() < n {
            v.extend_from_slice(&self.next_u64().to_le_bytes());
        }
        v.truncate(n);
        v
    }
}

/// Run `f` over all items on `jobs()` OS threads (dynamic work distribution).  Items are independent
/// executions; the set is fixed, only the order in which workers pick them up varies.
pub fn par_for_each<T: Sync, F: Fn(usize, &T) + Sync>(items: &[T], f: F) {
    let next = AtomicUsize::new(0);
    let n = jobs().min(items.len().max(1));
    std::thread::scope(|s| {
        for _ in 0..n {
            s.spawn(|| {
                loop {
                    let i = next.fetch_add(1, Ordering::Relaxed);
                    if i >= items.len() {
                        break;
                    }
                    f(i, &items[i]);
                }
            });
        }
    });
}

/// A deterministic permutation of 0..n derived from the seed: VERIF_SEED only changes the order
/// in which a fixed enumeration is walked, never the set.
pub fn seeded_order(n: usize, seed: u64) -> Vec<usize> {
    let mut v: Vec<usize> = (0..n).collect();
    if seed == 0 {
        return v;
    }
    let mut r = XorShift::new(seed);
    for i in (1..n).rev() {
        let j = (r.next_u64() % (i as u64 + 1)) as usize;
        v.swap(i, j);
    }
    v
}

/// Collects up to `cap` sample values (first come, first kept) from many threads.
pub struct Samples {
    cap: usize,
    v: Mutex<Vec<Value>>,
}
impl Samples {
    pub fn new(cap: usize) -> Self {
        Samples { cap, v: Mutex::new(Vec::new()) }
    }
    pub fn push(&self, v: Value) {
        let mut g = self.v.lock().unwrap();
        if g.len() < self.cap {
            g.push(v);
        }
    }
    pub fn take(&self) -> Vec<Value> {
        std::mem::take(&mut *self.v.lock().unwrap())
    }
}

/// Thread-safe set of distinct strings/hashes, used to count distinct observed outcomes/states.
#[derive(Default)]
pub struct Distinct {
    s: Mutex<BTreeSet<u64>>,
}
impl Distinct {
    pub fn new() -> Self {
        Self::default()
    }
    pub fn add(&self, s: &str) -> bool {
        self.s.lock().unwrap().insert(fnv(s.as_bytes()))
    }
    pub fn add_hash(&self, h: u64) -> bool {
        self.s.lock().unwrap().insert(h)
    }
    pub fn len(&self) -> usize {
        self.s.lock().unwrap().len()
    }
    pub fn is_empty(&self) -> bool {
        self.len() == 0
    }
}

/// Run a closure catching panics; returns Err(message) on panic.  The default panic hook output is
/// suppressed for the duration (per-thread flag) so exhaustive corruption sweeps do not flood stderr.
pub fn catch<R>(f: impl FnOnce() -> R) -> Result<R, String> {
    QUIET.with(|q| q.set(q.get() + 1));
    let r = std::panic::catch_unwind(std::panic::AssertUnwindSafe(f));
    QUIET.with(|q| q.set(q.get() - 1));
    r.map_err(|e| {
        if let Some(s) = e.downcast_ref::<&str>() {
            s.to_string()
        } else if let Some(s) = e.downcast_ref::<String>() {
            s.clone()
        } else {
            "panic (non-string payload)".to_string()
        }
    })
}

thread_local! {
    static QUIET: std::cell::Cell<u32> = const { std::cell::Cell::new(0) };
}

/// Install a panic hook that stays silent while the current thread is inside `catch`.
pub fn install_quiet_panic_hook() {
    let prev = std::panic::take_hook();
    std::panic::set_hook(Box::new(move |info| {
        let quiet = QUIET.try_with(|q| q.get() > 0).unwrap_or(false);
        if !quiet {
            prev(info);
        }
    }));
}
