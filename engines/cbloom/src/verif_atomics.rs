//! The atomics `circuit_breaker.rs` is compiled against in this crate: thin wrappers around
//! `loom::sync::atomic::AtomicU64` in which **every write carries a fresh tag** (upper 32 bits), so that
//! each load and each read-modify-write reveals exactly which write it read from.
//!
//! Why: loom 0.7.2 keeps the modification order of an atomic as a partial order, and its
//! read-modify-write picks among all stores that are not dominated.  With a plain `store` racing
//! against `compare_exchange`s on the same object it can therefore let two successful RMWs read from
//! the *same* store, which no C11 execution and no hardware allows (RMW atomicity; a 45-execution
//! model that shows it is kept in `/verif/tools/loom_rmw_artifact.rs`).  With tagged writes such an
//! execution is recognisable - one tag consumed by two successful RMWs - and the harness discards it
//! instead of judging it (counted in the evidence as `executions_discarded_as_infeasible`).
//!
//! Semantics kept: `load` / `store` map 1:1.  `compare_exchange(cur, new)` = atomic load; if the value
//! differs from `cur` it fails with that value (a failed CAS *is* just a load, also in C11); otherwise an
//! inner CAS on the exact tagged word, retried with the word it lost to.  `fetch_add` is the same loop.
//! Values must fit 32 bits (states, counters and logical timestamps here do).

use std::cell::RefCell;

pub use loom::sync::atomic::Ordering;
use loom::sync::atomic::AtomicU64 as Inner;

thread_local! {
    /// (object id, tag consumed) of every successful RMW of the current execution; loom runs all model
    /// threads as coroutines of one OS thread, so a thread-local is execution-global
    static CONSUMED: RefCell<Vec<(usize, u32)>> = const { RefCell::new(Vec::new()) };
    static NEXT_TAG: RefCell<u32> = const { RefCell::new(1) };
    static NEXT_OBJ: RefCell<usize> = const { RefCell::new(0) };
}

pub fn reset_execution() {
    CONSUMED.with(|c| c.borrow_mut().clear());
    NEXT_TAG.with(|t| *t.borrow_mut() = 1);
    NEXT_OBJ.with(|t| *t.borrow_mut() = 0);
}

/// True if some write was read by two successful read-modify-writes (impossible under C11).
pub fn execution_is_infeasible() -> bool {
    CONSUMED.with(|c| {
        let mut v = c.borrow().clone();
        v.sort();
        v.windows(2).any(|w| w[0] == w[1])
    })
}

fn tag() -> u64 {
    NEXT_TAG.with(|t| {
        let mut t = t.borrow_mut();
        *t += 1;
        *t as u64
    })
}

fn pack(v: u64) -> u64 {
    assert!(v <= u32::MAX as u64, "verif_atomics: value {v} does not fit 32 bits");
    (tag() << 32) | v
}

fn val(w: u64) -> u64 {
    w & 0xFFFF_FFFF
}

struct Tagged {
    inner: Inner,
    id: usize,
}

impl Tagged {
    fn new(v: u64) -> Self {
        let id = NEXT_OBJ.with(|t| {
            let mut t = t.borrow_mut();
            *t += 1;
            *t
        });
        Tagged { inner: Inner::new(pack(v)), id }
    }
    fn load(&self, o: Ordering) -> u64 {
        val(self.inner.load(o))
    }
    fn store(&self, v: u64, o: Ordering) {
        self.inner.store(pack(v), o)
    }
    fn load_ordering(success: Ordering) -> Ordering {
        match success {
            Ordering::Release | Ordering::Relaxed => Ordering::Relaxed,
            Ordering::AcqRel | Ordering::Acquire => Ordering::Acquire,
            o => o,
        }
    }
    fn rmw(&self, success: Ordering, failure: Ordering, mut f: impl FnMut(u64) -> Option<u64>) -> Result<u64, u64> {
        let mut w = self.inner.load(failure);
        loop {
            match f(val(w)) {
                None => return Err(val(w)),
                Some(new) => match self.inner.compare_exchange(w, pack(new), success, failure) {
                    Ok(_) => {
                        CONSUMED.with(|c| c.borrow_mut().push((self.id, (w >> 32) as u32)));
                        return Ok(val(w));
                    }
                    Err(actual) => w = actual,
                },
            }
        }
    }
}

pub struct AtomicU32(Tagged);
pub struct AtomicU64(Tagged);

impl AtomicU32 {
    pub fn new(v: u32) -> Self {
        AtomicU32(Tagged::new(v as u64))
    }
    pub fn load(&self, o: Ordering) -> u32 {
        self.0.load(o) as u32
    }
    pub fn store(&self, v: u32, o: Ordering) {
        self.0.store(v as u64, o)
    }
    pub fn fetch_add(&self, d: u32, o: Ordering) -> u32 {
        self.0.rmw(o, Tagged::load_ordering(o), |v| Some((v as u32).wrapping_add(d) as u64)).unwrap_or_else(|v| v) as u32
    }
    pub fn compare_exchange(&self, cur: u32, new: u32, success: Ordering, failure: Ordering) -> Result<u32, u32> {
        self.0.rmw(success, failure, |v| if v == cur as u64 { Some(new as u64) } else { None }).map(|v| v as u32).map_err(|v| v as u32)
    }
}

impl AtomicU64 {
    pub fn new(v: u64) -> Self {
        AtomicU64(Tagged::new(v))
    }
    pub fn load(&self, o: Ordering) -> u64 {
        self.0.load(o)
    }
    pub fn store(&self, v: u64, o: Ordering) {
        self.0.store(v, o)
    }
}

/// (only used when checking older revisions of the file, whose state was an `AtomicU8`)
pub struct AtomicU8(Tagged);

#[allow(dead_code)]
impl AtomicU8 {
    pub fn new(v: u8) -> Self {
        AtomicU8(Tagged::new(v as u64))
    }
    pub fn load(&self, o: Ordering) -> u8 {
        self.0.load(o) as u8
    }
    pub fn store(&self, v: u8, o: Ordering) {
        self.0.store(v as u64, o)
    }
    pub fn compare_exchange(&self, cur: u8, new: u8, success: Ordering, failure: Ordering) -> Result<u8, u8> {
        self.0.rmw(success, failure, |v| if v == cur as u64 { Some(new as u64) } else { None }).map(|v| v as u8).map_err(|v| v as u8)
    }
}
