fn main() { eprintln!("engine not built yet"); std::process::exit(2); }
