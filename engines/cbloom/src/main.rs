//! cbloom — C26: the write circuit breaker is panic-free and bounds half-open probes.
//!
//! The checked code is the repository's own `circuit_breaker.rs`, `#[path]`-included below and compiled
//! with this crate's `verif-loom` feature, so that its atomics are `loom::sync::atomic` types and its
//! clock is `clock_tick()` (a loom atomic logical clock: every read advances it by one, i.e. "the clock
//! advances between operations" and every clock read is a scheduling point of its own).
//!
//! Explored: for every scenario (configuration x start state x per-thread operation lists) loom
//! enumerates every interleaving (up to the stated preemption bound, or all of them) of the threads'
//! atomic steps; the oracles below are evaluated at the end of every execution.  In addition every
//! single-threaded operation sequence up to a depth is executed (one schedule each) with exact episode
//! accounting.
//!
//! Oracles (exactly the three clauses of the property):
//!   O1  no panic (the build has overflow checks on, as the repository's own test profile has);
//!   O2  from a Closed start, the breaker is only ever observed Open if some linearisation of the
//!       operations started so far (respecting each thread's program order) contains `failure_threshold`
//!       consecutive failures (failures recorded before the scenario count);
//!   O3  in scenarios in which Closed is unreachable, the number of admitted requests is at most
//!       (half_open_max_calls + 1) per half-open episode that can exist; the "+ 1" is the request that
//!       performs the Open -> HalfOpen transition, which the sequential code admits by design (the
//!       repository's own test `test_circuit_breaker_recovery` relies on it).

#[allow(dead_code)]
#[path = "/repo/crates/sierradb-cluster/src/circuit_breaker.rs"]
mod circuit_breaker;
mod verif_atomics;

use std::collections::{BTreeMap, HashMap};
use std::sync::Mutex;
use std::sync::atomic::{AtomicBool, AtomicU64 as StdU64, Ordering as StdOrd};
use std::time::{Duration, Instant};

use circuit_breaker::{CircuitState, WriteCircuitBreaker};
use serde_json::{Value, json};
use vcommon::workers::{self, WorkerOut};
use vcommon::{Args, Ctx, Tier};

loom::lazy_static! {
    static ref CLOCK: loom::sync::atomic::AtomicU64 = loom::sync::atomic::AtomicU64::new(CLOCK_START);
}
const CLOCK_START: u64 = 10_000;
const LONG_AGO: u64 = 5_000;

/// The clock of the included file: strictly increasing, one tick per read.
pub fn clock_tick() -> u64 {
    CLOCK.fetch_add(1, loom::sync::atomic::Ordering::SeqCst)
}

// ---------------------------------------------------------------------------------------------
// scenarios

#[derive(Clone, Copy, Debug, PartialEq, Eq, Hash, PartialOrd, Ord)]
enum Op {
    Allow,
    Succ,
    Fail,
    Est,
}

impl Op {
    const ALL: [Op; 4] = [Op::Allow, Op::Succ, Op::Fail, Op::Est];
    fn ch(self) -> char {
        match self {
            Op::Allow => 'A',
            Op::Succ => 'S',
            Op::Fail => 'F',
            Op::Est => 'E',
        }
    }
    fn from_ch(c: char) -> Op {
        match c {
            'A' => Op::Allow,
            'S' => Op::Succ,
            'F' => Op::Fail,
            'E' => Op::Est,
            _ => vcommon::machinery_fail("bad op letter in replay"),
        }
    }
}

#[derive(Clone, Copy, Debug, PartialEq, Eq, Hash)]
enum Start {
    /// Closed with threshold-1 consecutive failures already recorded
    ClosedAlmost,
    /// Closed, no failures
    ClosedFresh,
    /// Open, last failure just now
    OpenNow,
    /// Open, last failure LONG_AGO ticks ago
    OpenLongAgo,
    /// HalfOpen with max_calls-1 counted probes already made (plus the transitioning request)
    HalfOpenAlmost,
}

impl Start {
    const ALL: [Start; 5] = [Start::ClosedAlmost, Start::ClosedFresh, Start::OpenNow, Start::OpenLongAgo, Start::HalfOpenAlmost];
    fn name(self) -> &'static str {
        match self {
            Start::ClosedAlmost => "closed-almost",
            Start::ClosedFresh => "closed-fresh",
            Start::OpenNow => "open-now",
            Start::OpenLongAgo => "open-long-ago",
            Start::HalfOpenAlmost => "half-open-almost",
        }
    }
    fn from_name(s: &str) -> Start {
        *Start::ALL.iter().find(|x| x.name() == s).unwrap_or_else(|| vcommon::machinery_fail("bad start name"))
    }
    fn is_closed(self) -> bool {
        matches!(self, Start::ClosedAlmost | Start::ClosedFresh)
    }
}

#[derive(Clone, Copy, Debug, PartialEq, Eq, Hash)]
struct Cfg {
    threshold: u32,
    timeout: u64,
    max_calls: u32,
    succ_thr: u32,
}

const CFGS: [Cfg; 3] = [
    Cfg { threshold: 2, timeout: 1000, max_calls: 1, succ_thr: 1 },
    Cfg { threshold: 2, timeout: 0, max_calls: 1, succ_thr: 1000 },
    Cfg { threshold: 2, timeout: 2, max_calls: 2, succ_thr: 2 },
];

#[derive(Clone, Debug, PartialEq, Eq, Hash)]
struct Scenario {
    cfg: Cfg,
    start: Start,
    threads: Vec<Vec<Op>>,
    bound: Option<usize>,
}

impl Scenario {
    fn to_json(&self) -> Value {
        json!({
            "threshold": self.cfg.threshold, "timeout_ticks": self.cfg.timeout, "half_open_max_calls": self.cfg.max_calls,
            "half_open_success_threshold": self.cfg.succ_thr, "start": self.start.name(),
            "threads": self.threads.iter().map(|t| t.iter().map(|o| o.ch()).collect::<String>()).collect::<Vec<_>>(),
            "preemption_bound": self.bound,
        })
    }
    fn from_json(v: &Value) -> Scenario {
        let u = |k: &str| v[k].as_u64().unwrap_or_else(|| vcommon::machinery_fail(&format!("replay lacks {k}")));
        Scenario {
            cfg: Cfg { threshold: u("threshold") as u32, timeout: u("timeout_ticks"), max_calls: u("half_open_max_calls") as u32, succ_thr: u("half_open_success_threshold") as u32 },
            start: Start::from_name(v["start"].as_str().unwrap_or("")),
            threads: v["threads"].as_array().map(|a| a.iter().map(|t| t.as_str().unwrap_or("").chars().map(Op::from_ch).collect()).collect()).unwrap_or_default(),
            bound: v["preemption_bound"].as_u64().map(|b| b as usize),
        }
    }
    fn shape(&self) -> String {
        let mut s: Vec<usize> = self.threads.iter().map(|t| t.len()).collect();
        s.sort();
        format!("{}t/{}", self.threads.len(), s.iter().map(|x| x.to_string()).collect::<Vec<_>>().join("+"))
    }
}

fn op_lists(len: usize) -> Vec<Vec<Op>> {
    let mut out: Vec<Vec<Op>> = vec![vec![]];
    for _ in 0..len {
        let mut n = Vec::new();
        for p in &out {
            for o in Op::ALL {
                let mut q = p.clone();
                q.push(o);
                n.push(q);
            }
        }
        out = n;
    }
    out
}

/// All multisets of per-thread op lists with the given lengths (threads are symmetric: only sorted
/// combinations are kept when lengths are equal).
fn thread_vectors(lens: &[usize]) -> Vec<Vec<Vec<Op>>> {
    let mut out: Vec<Vec<Vec<Op>>> = vec![vec![]];
    for &l in lens {
        let lists = op_lists(l);
        let mut n = Vec::new();
        for p in &out {
            for li in &lists {
                if let Some(prev) = p.last() {
                    if prev.len() == li.len() && prev > li {
                        continue;
                    }
                }
                let mut q = p.clone();
                q.push(li.clone());
                n.push(q);
            }
        }
        out = n;
    }
    out
}

fn scenarios(tier: Tier) -> Vec<Scenario> {
    // (thread lengths, preemption bound)
    let shapes: Vec<(Vec<usize>, Option<usize>)> = match tier {
        Tier::Quick => vec![(vec![1, 1], None), (vec![1, 2], None), (vec![2, 2], Some(3)), (vec![1, 1, 1], Some(3)), (vec![1, 3], Some(2))],
        Tier::Thorough => vec![
            (vec![1, 1], None),
            (vec![1, 2], None),
            (vec![2, 2], None),
            (vec![1, 3], Some(4)),
            (vec![2, 3], Some(3)),
            (vec![3, 3], Some(2)),
            (vec![1, 1, 1], None),
            (vec![1, 1, 2], Some(3)),
            (vec![1, 2, 2], Some(2)),
        ],
    };
    let mut v = Vec::new();
    for (lens, bound) in shapes {
        for threads in thread_vectors(&lens) {
            for cfg in CFGS {
                for start in Start::ALL {
                    v.push(Scenario { cfg, start, threads: threads.clone(), bound });
                }
            }
        }
    }
    v
}

// ---------------------------------------------------------------------------------------------
// ghost recording (invisible to loom: plain std types, only touched by the one running thread)

#[derive(Clone, Debug)]
struct Rec {
    thread: usize,
    op: Op,
    start: u64,
    end: u64,
    /// Allow: admitted?; Est: Some(..)?; others: true
    ret: bool,
    /// Est only: Some(non-zero) was returned (breaker Open and not yet ready)
    est_waiting: bool,
}

static GHOST: StdU64 = StdU64::new(0);
static LOG: Mutex<Vec<Rec>> = Mutex::new(Vec::new());
static EXECS: StdU64 = StdU64::new(0);
static DISCARDED: StdU64 = StdU64::new(0);
static OPS: StdU64 = StdU64::new(0);
static FOUND: Mutex<Option<(String, String, Value)>> = Mutex::new(None);
static IN_MODEL: AtomicBool = AtomicBool::new(false);
static OUTCOMES: Mutex<BTreeMap<String, u64>> = Mutex::new(BTreeMap::new());

fn ghost() -> u64 {
    GHOST.fetch_add(1, StdOrd::Relaxed)
}

fn run_op(cb: &WriteCircuitBreaker, thread: usize, op: Op) {
    let start = ghost();
    let (ret, est_waiting) = match op {
        Op::Allow => (cb.should_allow_request(), false),
        Op::Succ => {
            cb.record_success();
            (true, false)
        }
        Op::Fail => {
            cb.record_failure();
            (true, false)
        }
        Op::Est => {
            let r = cb.estimated_recovery_time();
            (r.is_some(), matches!(r, Some(d) if d > Duration::ZERO))
        }
    };
    let end = ghost();
    OPS.fetch_add(1, StdOrd::Relaxed);
    LOG.lock().unwrap().push(Rec { thread, op, start, end, ret, est_waiting });
}

/// Builds the start state with sequential calls inside the model; returns the number of requests
/// admitted while doing so (they belong to the half-open episode the scenario starts in).
fn build(sc: &Scenario) -> (WriteCircuitBreaker, u32) {
    let c = sc.cfg;
    let cb = WriteCircuitBreaker::new(c.threshold, Duration::from_millis(c.timeout), c.max_calls, c.succ_thr);
    let mut admitted = 0;
    let open = |cb: &WriteCircuitBreaker| {
        for _ in 0..c.threshold {
            cb.record_failure();
        }
        assert_eq!(cb.current_state(), CircuitState::Open, "harness: start state not Open");
    };
    match sc.start {
        Start::ClosedFresh => {}
        Start::ClosedAlmost => {
            for _ in 0..c.threshold - 1 {
                cb.record_failure();
            }
            assert_eq!(cb.current_state(), CircuitState::Closed);
        }
        Start::OpenNow => open(&cb),
        Start::OpenLongAgo => {
            open(&cb);
            CLOCK.fetch_add(LONG_AGO, loom::sync::atomic::Ordering::SeqCst);
        }
        Start::HalfOpenAlmost => {
            open(&cb);
            CLOCK.fetch_add(LONG_AGO, loom::sync::atomic::Ordering::SeqCst);
            assert!(cb.should_allow_request(), "harness: transition request not admitted");
            admitted += 1;
            assert_eq!(cb.current_state(), CircuitState::HalfOpen);
            for _ in 0..c.max_calls - 1 {
                assert!(cb.should_allow_request());
                admitted += 1;
            }
        }
    }
    (cb, admitted)
}

fn count(sc: &Scenario, op: Op) -> u32 {
    sc.threads.iter().flatten().filter(|o| **o == op).count() as u32
}

/// O2 helper: is there a linearisation (respecting the ghost interval order) of the operations that
/// started before `t` with `threshold` consecutive failures, `f0` failures preceding everything?
fn justified(recs: &[Rec], t: u64, f0: u32, threshold: u32) -> bool {
    let ops: Vec<&Rec> = recs.iter().filter(|r| r.start < t && matches!(r.op, Op::Fail | Op::Succ)).collect();
    fn go(ops: &[&Rec], used: u32, run: u32, threshold: u32) -> bool {
        if run >= threshold {
            return true;
        }
        for (i, r) in ops.iter().enumerate() {
            if used & (1 << i) != 0 {
                continue;
            }
            // r may come next only if no unused op of the same thread precedes it.  Operations of
            // different threads are never ordered here, even when one returned before the other began:
            // the harness threads do not synchronise with each other, and under the C11 model (which loom
            // explores) a Release store may be modification-ordered before a read-modify-write of another
            // thread that executed earlier, so "earlier in wall time" is not an ordering the code could rely on.
            if ops.iter().enumerate().any(|(j, q)| j != i && used & (1 << j) == 0 && q.thread == r.thread && q.start < r.start) {
                continue;
            }
            let nrun = if r.op == Op::Fail { run + 1 } else { 0 };
            if go(ops, used | (1 << i), nrun, threshold) {
                return true;
            }
        }
        false
    }
    go(&ops, 0, f0, threshold)
}

fn fail(key: String, desc: String, sc: &Scenario, recs: &[Rec]) -> ! {
    let case = json!({
        "scenario": sc.to_json(),
        "execution_index": EXECS.load(StdOrd::Relaxed),
        "history": recs.iter().map(|r| json!({"thread": r.thread, "op": r.op.ch().to_string(), "start": r.start, "end": r.end, "ret": r.ret})).collect::<Vec<_>>(),
    });
    let mut f = FOUND.lock().unwrap();
    if f.is_none() {
        *f = Some((key, desc, case));
    }
    drop(f);
    panic!("ORACLE");
}

fn evaluate(sc: &Scenario, cb: &WriteCircuitBreaker, pre_admitted: u32) {
    let recs = LOG.lock().unwrap().clone();
    let final_state = cb.current_state();
    let c = sc.cfg;
    // distinct outcomes: return values in thread order + final state
    let mut byt: Vec<&Rec> = recs.iter().collect();
    byt.sort_by_key(|r| (r.thread, r.start));
    let o: String = byt.iter().map(|r| if r.ret { '1' } else { '0' }).collect::<String>() + &format!("{final_state:?}");
    *OUTCOMES.lock().unwrap().entry(o).or_insert(0) += 1;

    // O2
    if sc.start.is_closed() {
        let f0 = if sc.start == Start::ClosedAlmost { c.threshold - 1 } else { 0 };
        // observations that imply "Open or HalfOpen was current": Allow returning false, Est returning
        // Some(..); the final state.
        let mut obs: Vec<(u64, String)> = Vec::new();
        for r in &recs {
            match r.op {
                Op::Allow if !r.ret => obs.push((r.end, format!("should_allow_request returned false (thread {})", r.thread))),
                Op::Est if r.ret => obs.push((r.end, format!("estimated_recovery_time returned Some (thread {})", r.thread))),
                _ => {}
            }
        }
        if final_state != CircuitState::Closed {
            obs.push((u64::MAX, format!("final state {final_state:?}")));
        }
        for (t, what) in obs {
            if !justified(&recs, t, f0, c.threshold) {
                fail(
                    format!("C26/opened-without-threshold-failures/start={}", sc.start.name()),
                    format!("{what}, but no ordering of the operations started by then contains {} consecutive failures ({} recorded before)", c.threshold, f0),
                    sc,
                    &recs,
                );
            }
        }
    }

    // O3
    let closed_unreachable = !sc.start.is_closed() && count(sc, Op::Succ) < c.succ_thr;
    if closed_unreachable {
        let admitted = pre_admitted + recs.iter().filter(|r| r.op == Op::Allow && r.ret).count() as u32;
        // an episode needs the breaker to be Open first; every re-opening needs a record_failure call,
        // and with the long timeout no second episode can begin within the scenario's clock range
        // An episode begins with an Open -> HalfOpen transition, so there are at most as many episodes as
        // there are times the breaker is Open: once at the start (or, for the half-open start, the episode
        // in progress) plus once per record_failure call.  No assumption is made about *when* a new
        // episode may begin (the property does not state one).
        let episodes = 1 + count(sc, Op::Fail);
        let bound = (c.max_calls + 1) * episodes;
        if admitted > bound {
            let racers = sc.threads.iter().filter(|t| t.contains(&Op::Allow)).count();
            fail(
                format!("C26/probe-bound-exceeded/start={}/threads-admitting={}", sc.start.name(), racers.min(3)),
                format!(
                    "{admitted} requests admitted, at most {bound} allowed = (half_open_max_calls {} + the transitioning request) x {episodes} possible half-open episode(s)",
                    c.max_calls
                ),
                sc,
                &recs,
            );
        }
    }
}

struct ModelResult {
    execs: u64,
    capped: bool,
    violation: Option<(String, String, Value)>,
}

fn run_model(sc: &Scenario, max: Duration) -> ModelResult {
    let before = EXECS.load(StdOrd::Relaxed);
    *FOUND.lock().unwrap() = None;
    let mut b = loom::model::Builder::new();
    b.preemption_bound = sc.bound;
    b.max_duration = Some(max);
    b.checkpoint_interval = 500;
    b.max_branches = 5_000;
    b.log = std::env::var("CBLOOM_LOG").is_ok();
    b.location = b.log;
    let sc2 = sc.clone();
    let t0 = Instant::now();
    IN_MODEL.store(true, StdOrd::Relaxed);
    let r = vcommon::catch(move || {
        b.check(move || {
            EXECS.fetch_add(1, StdOrd::Relaxed);
            GHOST.store(0, StdOrd::Relaxed);
            LOG.lock().unwrap().clear();
            verif_atomics::reset_execution();
            let (cb, pre) = build(&sc2);
            let cb = loom::sync::Arc::new(cb);
            let mut hs = Vec::new();
            for (ti, ops) in sc2.threads.iter().enumerate().skip(1) {
                let cb = cb.clone();
                let ops = ops.clone();
                hs.push(loom::thread::spawn(move || {
                    for o in ops {
                        run_op(&cb, ti, o);
                    }
                }));
            }
            for o in &sc2.threads[0] {
                run_op(&cb, 0, *o);
            }
            for h in hs {
                h.join().unwrap();
            }
            if verif_atomics::execution_is_infeasible() {
                // loom let two successful read-modify-writes read the same write (see verif_atomics.rs)
                DISCARDED.fetch_add(1, StdOrd::Relaxed);
                return;
            }
            evaluate(&sc2, &cb, pre);
        })
    });
    IN_MODEL.store(false, StdOrd::Relaxed);
    let execs = EXECS.load(StdOrd::Relaxed) - before;
    let capped = t0.elapsed() >= max;
    let violation = match r {
        Ok(()) => None,
        Err(msg) => {
            let found = FOUND.lock().unwrap().take();
            Some(found.unwrap_or_else(|| {
                let recs = LOG.lock().unwrap().clone();
                let arith = msg.contains("overflow");
                (
                    format!("C26/panic/{}/start={}", if arith { "arithmetic-overflow" } else { "other" }, sc.start.name()),
                    format!("panic in the circuit breaker: {msg}"),
                    json!({
                        "scenario": sc.to_json(),
                        "execution_index": execs,
                        "completed_ops_before_panic": recs.iter().map(|r| json!({"thread": r.thread, "op": r.op.ch().to_string(), "ret": r.ret})).collect::<Vec<_>>(),
                        "panic": msg,
                    }),
                )
            }))
        }
    };
    ModelResult { execs, capped, violation }
}

// ---------------------------------------------------------------------------------------------
// sequential sweep: every single-threaded op sequence up to a depth, exact episode accounting

/// Runs a batch of single-threaded sequences inside ONE loom execution (one schedule: there is a single
/// thread), each on a fresh breaker and a reset clock, each inside its own `catch_unwind`.
fn sequential_batch(cfg: Cfg, start: Start, seqs: Vec<Vec<Op>>, out: &mut WorkerOut) {
    type Found = Vec<(String, String, Value)>;
    let found: std::sync::Arc<Mutex<Found>> = Default::default();
    let f2 = found.clone();
    let n_ops: u64 = seqs.iter().map(|s| s.len() as u64).sum();
    let n = seqs.len() as u64;
    for ops in &seqs {
        let sc = Scenario { cfg, start, threads: vec![ops.clone()], bound: None };
        out.state(vcommon::fnv(format!("{:?}", sc.to_json()).as_bytes()));
    }
    let r = vcommon::catch(move || {
        let mut b = loom::model::Builder::new();
        b.log = false;
        b.max_branches = 400_000;
        b.check(move || {
            for ops in &seqs {
                let sc = Scenario { cfg, start, threads: vec![ops.clone()], bound: None };
                let r = vcommon::catch(|| sequential_one(&sc));
                let mut f = f2.lock().unwrap();
                match r {
                    Err(msg) => f.push((
                        format!("C26/sequential/panic/{}", if msg.contains("overflow") { "arithmetic-overflow" } else { "other" }),
                        format!("panic in a single-threaded run: {msg}"),
                        json!({"sequential": true, "scenario": sc.to_json()}),
                    )),
                    Ok(Some((k, d))) => f.push((k, d, json!({"sequential": true, "scenario": sc.to_json()}))),
                    Ok(None) => {}
                }
            }
        })
    });
    out.transitions += n_ops;
    out.evals += n;
    out.count("sequential_sequences", n);
    if let Err(msg) = r {
        vcommon::machinery_fail(&format!("sequential batch failed outside the code under test: {msg}"));
    }
    for (k, d, c) in found.lock().unwrap().drain(..) {
        out.violation(&k, &d, c);
    }
}

/// One single-threaded sequence with exact episode accounting (state is observed after every op).
fn sequential_one(sc: &Scenario) -> Option<(String, String)> {
    CLOCK.store(CLOCK_START, loom::sync::atomic::Ordering::SeqCst);
    verif_atomics::reset_execution();
    let mut found = None;
    let (cb, pre) = build(sc);
    let c = sc.cfg;
    let mut state = cb.current_state();
    let mut in_episode = pre; // admitted in the current (possibly upcoming) episode
    let mut run: u32 = match sc.start {
        Start::ClosedAlmost => c.threshold - 1,
        Start::ClosedFresh => 0,
        _ => c.threshold,
    };
    for (i, o) in sc.threads[0].iter().enumerate() {
        let before = state;
        let mut admitted = false;
        match o {
            Op::Allow => admitted = cb.should_allow_request(),
            Op::Succ => cb.record_success(),
            Op::Fail => cb.record_failure(),
            Op::Est => {
                let _ = cb.estimated_recovery_time();
            }
        }
        state = cb.current_state();
        match o {
            Op::Fail => run += 1,
            Op::Succ => run = 0,
            _ => {}
        }
        if before == CircuitState::Closed && state == CircuitState::Open && run < c.threshold && found.is_none() {
            found = Some((
                "C26/sequential/opened-without-threshold-failures".into(),
                format!("step {i}: Closed -> Open after only {run} consecutive failures (threshold {})", c.threshold),
            ));
        }
        if before != CircuitState::HalfOpen && state == CircuitState::HalfOpen {
            // the request that performed the transition (if it was one) is counted below
            in_episode = 0;
        }
        if admitted && before != CircuitState::Closed {
            in_episode += 1;
            if in_episode > c.max_calls + 1 && found.is_none() {
                found = Some((
                    "C26/sequential/probe-bound-exceeded".into(),
                    format!("step {i}: {in_episode} requests admitted in one half-open episode (max_calls {} + the transitioning request)", c.max_calls),
                ));
            }
        }
    }
    found
}

// ---------------------------------------------------------------------------------------------

enum Case {
    /// all sequences of `depth` ops that begin with `prefix`
    Seq(Cfg, Start, usize, Vec<Op>),
    Conc(Scenario),
}

fn seqs_of(depth: usize, prefix: &[Op]) -> Vec<Vec<Op>> {
    op_lists(depth - prefix.len()).into_iter().map(|t| prefix.iter().copied().chain(t).collect()).collect()
}

fn cases(tier: Tier) -> Vec<Case> {
    let mut v = Vec::new();
    let depth = if tier.is_thorough() { 7 } else { 5 };
    // sequential sequences are grouped by their first three ops to keep the number of cases moderate
    for cfg in CFGS {
        for start in Start::ALL {
            for d in 1..=depth as usize {
                // batches of at most 4^5 sequences
                let plen = (d as usize).saturating_sub(5);
                for prefix in op_lists(plen) {
                    v.push(Case::Seq(cfg, start, d, prefix));
                }
            }
        }
    }
    for sc in scenarios(tier) {
        v.push(Case::Conc(sc));
    }
    v
}

fn describe(c: &Case) -> Value {
    match c {
        Case::Seq(cfg, start, d, prefix) => json!({"sequential_batch": true, "depth": d, "scenario": Scenario { cfg: *cfg, start: *start, threads: vec![prefix.clone()], bound: None }.to_json()}),
        Case::Conc(sc) => json!({"scenario": sc.to_json()}),
    }
}

fn per_model_cap(tier: Tier) -> Duration {
    Duration::from_secs(if tier.is_thorough() { 120 } else { 20 })
}

fn run_case(c: &Case, tier: Tier, out: &mut WorkerOut) {
    let t0 = Instant::now();
    run_case_inner(c, tier, out);
    if std::env::var("CBLOOM_TIME").is_ok() {
        eprintln!("{:>8.1} ms  {}", t0.elapsed().as_secs_f64() * 1e3, describe(c));
    }
}

fn run_case_inner(c: &Case, tier: Tier, out: &mut WorkerOut) {
    match c {
        Case::Seq(cfg, start, d, prefix) => sequential_batch(*cfg, *start, seqs_of(*d, prefix), out),
        Case::Conc(sc) => {
            let d0 = DISCARDED.load(StdOrd::Relaxed);
            let r = run_model(sc, per_model_cap(tier));
            out.count("executions_discarded_as_infeasible", DISCARDED.load(StdOrd::Relaxed) - d0);
            out.evals += r.execs;
            out.count(&format!("schedules[{} bound={}]", sc.shape(), sc.bound.map(|b| b.to_string()).unwrap_or("none".into())), r.execs);
            out.count(&format!("models[{} bound={}]", sc.shape(), sc.bound.map(|b| b.to_string()).unwrap_or("none".into())), 1);
            out.state(vcommon::fnv(format!("{:?}", sc.to_json()).as_bytes()));
            if r.capped {
                out.count("models_stopped_by_time_cap", 1);
            }
            out.sample(json!({"scenario": sc.to_json(), "schedules_explored": r.execs, "distinct_observed_outcomes": OUTCOMES.lock().unwrap().len()}));
            if let Some((k, d, case)) = r.violation {
                out.violation(&k, &d, case);
                // loom's thread-local execution state is not trusted after an unwound model
                out.retire = true;
            }
            let mut oc = OUTCOMES.lock().unwrap();
            for (k, _) in oc.iter() {
                out.outcome(format!("{}|{}", sc.shape(), k));
            }
            oc.clear();
        }
    }
}

fn main() {
    vcommon::install_quiet_panic_hook();
    let args: Args = vcommon::parse_args();
    if args.property != "C26" {
        vcommon::machinery_fail("cbloom serves C26 only");
    }
    let tier = args.tier;
    if let Some(path) = &args.replay {
        replay(path, tier);
    }
    let all = cases(tier);
    let order: Vec<usize> = vcommon::seeded_order(all.len(), vcommon::seed_from_env());
    if let Some(spec) = workers::worker_spec(&args.extra) {
        // OPS is global; report it through the transitions counter at the end of every case
        workers::worker_loop(&spec, &order, |idx, out| {
            let before = OPS.load(StdOrd::Relaxed);
            run_case(&all[idx], tier, out);
            if matches!(all[idx], Case::Conc(_)) {
                out.transitions += OPS.load(StdOrd::Relaxed) - before;
            }
        });
    }
    let ctx = Ctx::new("C26", tier, "model_checking");
    let cap = Duration::from_secs(if tier.is_thorough() { 1500 } else { 50 });
    let m = workers::parent_run(&ctx, all.len(), &["C26".to_string(), tier.as_str().to_string()], cap, "C26/process-died", |pos| describe(&all[order[pos]]));
    let n_conc = all.iter().filter(|c| matches!(c, Case::Conc(..))).count();
    let n_seq = m.counters.get("sequential_sequences").copied().unwrap_or(0);
    let coverage = json!({
        "states": m.evals,
        "transitions": m.transitions,
        "schedules_explored": m.evals,
        "evaluations": m.evals,
        "distinct_nontrivial": m.outcomes.len(),
        "rule": "every scenario is a distinct (configuration, start state, per-thread operation lists) tuple; evaluations = loom executions + single-threaded sequences; distinct_nontrivial counts distinct (thread shape, per-operation return values, final state) observations, i.e. how many different behaviours the explored schedules actually produced",
        "samples": m.samples,
        "traces_validated_against_impl": m.evals,
        "what_states_are": "complete executions (loom schedules) of the real circuit_breaker.rs; each is checked by the oracles",
        "cases": {"sequential_sequences": n_seq, "concurrent_scenarios": n_conc, "executed": m.cases_done},
        "exhaustive": !m.capped && m.counters.get("models_stopped_by_time_cap").copied().unwrap_or(0) == 0,
        "caps_hit": {"global_wall_cap": m.capped, "models_stopped_by_time_cap": m.counters.get("models_stopped_by_time_cap").copied().unwrap_or(0)},
        "bounds": {
            "alphabet": ["should_allow_request", "record_success", "record_failure", "estimated_recovery_time"],
            "configurations": CFGS.iter().map(|c| json!({"failure_threshold": c.threshold, "recovery_timeout_ticks": c.timeout, "half_open_max_calls": c.max_calls, "half_open_success_threshold": c.succ_thr})).collect::<Vec<_>>(),
            "start_states": Start::ALL.iter().map(|s| s.name()).collect::<Vec<_>>(),
            "sequential_depth": if tier.is_thorough() { 7 } else { 5 },
            "thread_shapes_and_preemption_bounds": m.counters.iter().filter(|(k, _)| k.starts_with("models[")).map(|(k, v)| json!({"shape": k, "models": v})).collect::<Vec<_>>(),
            "clock": "loom atomic logical clock, one tick per read, every read is a scheduling point",
            "probe_bound_used": "half_open_max_calls + 1 (the request performing Open->HalfOpen) per possible episode",
        },
        "schedules_per_shape": m.counters.iter().filter(|(k, _)| k.starts_with("schedules[")).map(|(k, v)| json!({"shape": k, "schedules": v})).collect::<Vec<_>>(),
        "distinct_outcomes": m.outcomes.len(),
        "executions_discarded_as_infeasible": m.counters.get("executions_discarded_as_infeasible").copied().unwrap_or(0),
        "worker_deaths": m.worker_deaths,
    });
    ctx.finish(
        coverage,
        vec![
            "loom models the C11 memory model for the orderings the file uses (Acquire/Release/AcqRel); executions in which loom lets two successful read-modify-writes read the same write (impossible under C11, see verif_atomics.rs) are recognised through tagged writes and discarded, their number is reported".into(),
            "the clock is logical: millisecond granularity effects are represented by timeouts of 0, 2 and 1000 ticks".into(),
            "preemption-bounded shapes are exhaustive only up to the stated bound".into(),
        ],
    )
}

fn replay(path: &std::path::Path, tier: Tier) -> ! {
    if std::env::var("CBLOOM_LOG").is_ok() {
        let _ = tracing_subscriber::fmt().with_max_level(tracing::Level::TRACE).with_writer(std::io::stderr).without_time().try_init();
    }
    let case = vcommon::load_replay(path);
    let case = if case.get("died").is_some() { case["case"].clone() } else { case };
    let sc = Scenario::from_json(&case["scenario"]);
    let mut ctx = Ctx::new("C26", tier, "model_checking");
    ctx.replay_mode = true;
    let mut obs = Vec::new();
    for _ in 0..2 {
        if case["sequential"].as_bool().unwrap_or(false) {
            let mut out = WorkerOut { collected: Some(Vec::new()), ..Default::default() };
            sequential_batch(sc.cfg, sc.start, vec![sc.threads[0].clone()], &mut out);
            obs.push(out.collected.unwrap().into_iter().next());
        } else {
            let r = run_model(&sc, Duration::from_secs(300));
            println!("replay: {} executions explored{}", r.execs, if r.capped { " (time cap hit)" } else { "" });
            obs.push(r.violation);
        }
    }
    let keys: Vec<Option<String>> = obs.iter().map(|o| o.as_ref().map(|x| x.0.clone())).collect();
    if keys[0] != keys[1] {
        vcommon::machinery_fail(&format!("non-deterministic replay: {keys:?}"));
    }
    match obs.into_iter().next().unwrap() {
        Some((k, d, c)) => {
            println!("replay: violation reproduced");
            ctx.violation(&k, &d, c);
        }
        None => println!("replay: the recorded scenario passes on the current tree"),
    }
    let _: HashMap<(), ()> = HashMap::new();
    ctx.finish(json!({"replay": path.display().to_string()}), vec![])
}
