//! clusterx — checks that need the real cluster actors in one process (C07, C08, C09, C12, C22).
mod c07;
mod c08;
mod c09;
mod c12;
mod c22;
mod cx;

fn main() {
    vcommon::install_quiet_panic_hook();
    let args = vcommon::parse_args();
    match args.property.as_str() {
        "C07" => c07::run(args),
        "C08" => c08::run(args),
        "C09" => c09::run(args),
        "C12" => c12::run(args),
        "C22" => c22::run(args),
        p => vcommon::machinery_fail(&format!("clusterx does not serve property {p} (yet)")),
    }
}
