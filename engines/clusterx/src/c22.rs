//! C22 — the RESP API of a single node behaves like the event-store model.
//!
//! One process: a real `Database`, the real single-node `ClusterActor` (rf 1), two real `Server`s on
//! loopback ports (strict versioning off / on) and a minimal RESP3 client.  Every command history up
//! to a depth over the alphabet below is executed on its own partition (own partition key and stream
//! names), so thousands of histories share one server without interacting.  Every reply is compared
//! with the reference model; after each history an audit (full scans, versions, lookups) compares the
//! stored state with the model.

use std::time::Duration;

use bytes::BytesMut;
use redis_protocol::resp3::decode::complete::decode_bytes_mut;
use redis_protocol::resp3::types::BytesFrame;
use serde::{Deserialize, Serialize};
use serde_json::{Value, json};
use sierradb_server::server::Server;
use tokio::io::{AsyncReadExt, AsyncWriteExt};
use tokio::net::TcpStream;
use tokio_util::sync::CancellationToken;
use vcommon::workers::{self, WorkerOut};
use vcommon::{Args, Ctx};

use crate::cx::*;

const MS_MAX_OK: u64 = 9_223_372_036_854; // * 10^6 < 2^63
const MS_FIRST_BAD: u64 = 9_223_372_036_855; // * 10^6 >= 2^63 (still fits u64)

#[derive(Serialize, Deserialize, Clone, Copy, Debug, PartialEq, Eq, Hash)]
pub enum Exp {
    Absent,
    Empty,
    ExactRight,
    ExactWrong,
    Any,
    Exists,
}

#[derive(Serialize, Deserialize, Clone, Copy, Debug, PartialEq, Eq, Hash)]
pub enum Ts {
    Absent,
    Zero,
    MaxOk,
    FirstBad,
    U64Max,
}

#[derive(Serialize, Deserialize, Clone, Copy, Debug, PartialEq, Eq, Hash)]
pub enum MKind {
    One,
    SameStreamTwice,
    TwoStreams,
    ABA,
    WrongExpectationOnSecond,
    BadTimestampOnSecond,
}

#[derive(Serialize, Deserialize, Clone, Copy, Debug, PartialEq, Eq, Hash)]
pub enum Range {
    All,        // - +
    ZeroZero,   // 0 0
    OnePlus,    // 1 +
    LenPlus,    // <len> +
    StartAfterEnd, // 2 1
}

#[derive(Serialize, Deserialize, Clone, Copy, Debug, PartialEq, Eq, Hash)]
pub enum C {
    Append { stream: u8, exp: Exp, ts: Ts },
    MAppend(MKind),
    GetFirst,
    GetUnknown,
    GetMalformed,
    Scan { partition: bool, range: Range, count: Option<u64> },
    SVer(u8),
    PSeq,
}

fn alphabet(strict: bool) -> Vec<C> {
    let mut v = Vec::new();
    for stream in [0u8, 1] {
        for exp in [Exp::Absent, Exp::Empty, Exp::ExactRight, Exp::ExactWrong, Exp::Any, Exp::Exists] {
            if strict || stream == 0 || matches!(exp, Exp::Empty | Exp::Any) {
                v.push(C::Append { stream, exp, ts: Ts::Absent });
            }
        }
    }
    if strict {
        return v;
    }
    for ts in [Ts::Zero, Ts::MaxOk, Ts::FirstBad, Ts::U64Max] {
        v.push(C::Append { stream: 0, exp: Exp::Any, ts });
    }
    for k in [MKind::One, MKind::SameStreamTwice, MKind::TwoStreams, MKind::ABA, MKind::WrongExpectationOnSecond, MKind::BadTimestampOnSecond] {
        v.push(C::MAppend(k));
    }
    v.extend([C::GetFirst, C::GetUnknown, C::GetMalformed]);
    for partition in [false, true] {
        for range in [Range::All, Range::ZeroZero, Range::OnePlus, Range::LenPlus, Range::StartAfterEnd] {
            v.push(C::Scan { partition, range, count: None });
        }
        for count in [0u64, 1, 100] {
            v.push(C::Scan { partition, range: Range::All, count: Some(count) });
        }
    }
    v.extend([C::SVer(0), C::SVer(1), C::PSeq]);
    v
}

fn is_write(c: &C) -> bool {
    matches!(c, C::Append { .. } | C::MAppend(_))
}

fn histories(strict: bool, thorough: bool) -> Vec<Vec<C>> {
    let a = alphabet(strict);
    let writes: Vec<C> = a.iter().copied().filter(is_write).collect();
    let mut out: Vec<Vec<C>> = Vec::new();
    for x in &a {
        out.push(vec![*x]);
    }
    for x in &a {
        for y in &a {
            out.push(vec![*x, *y]);
        }
    }
    // depth 3: two writes, then anything (quick: the second write from a reduced set)
    for (i, x) in writes.iter().enumerate() {
        for (j, y) in writes.iter().enumerate() {
            if !thorough && (i + j) % 3 != 0 {
                continue;
            }
            for z in &a {
                out.push(vec![*x, *y, *z]);
            }
        }
    }
    if thorough && !strict {
        // depth 4: three writes from the version-relevant sub-alphabet, then a read
        let core: Vec<C> = writes
            .iter()
            .copied()
            .filter(|c| matches!(c, C::Append { stream: 0, exp: Exp::Any | Exp::ExactRight | Exp::Empty, ts: Ts::Absent } | C::MAppend(MKind::SameStreamTwice | MKind::TwoStreams | MKind::ABA)))
            .collect();
        let reads: Vec<C> = a.iter().copied().filter(|c| !is_write(c)).collect();
        for x in &core {
            for y in &core {
                for z in &core {
                    for r in &reads {
                        out.push(vec![*x, *y, *z, *r]);
                    }
                }
            }
        }
    }
    out
}

const CHUNK: usize = 1500;

#[derive(Serialize, Deserialize, Clone, Debug)]
pub struct Case {
    pub strict: bool,
    pub chunk: usize,
    #[serde(default)]
    pub only: Option<usize>,
}

// ---------------------------------------------------------------------------------------------
// RESP client

struct Client {
    s: TcpStream,
    buf: BytesMut,
}

fn to_json(f: &BytesFrame) -> Value {
    fn text(b: &[u8]) -> Value {
        match std::str::from_utf8(b) {
            Ok(s) => json!(s),
            Err(_) => json!({"hex": b.iter().map(|x| format!("{x:02x}")).collect::<String>()}),
        }
    }
    match f {
        BytesFrame::BlobString { data, .. } | BytesFrame::SimpleString { data, .. } | BytesFrame::VerbatimString { data, .. } | BytesFrame::BigNumber { data, .. } => text(data),
        BytesFrame::BlobError { data, .. } => json!({"error": String::from_utf8_lossy(data)}),
        BytesFrame::SimpleError { data, .. } => json!({"error": data.to_string()}),
        BytesFrame::Boolean { data, .. } => json!(data),
        BytesFrame::Null => Value::Null,
        BytesFrame::Number { data, .. } => json!(data),
        BytesFrame::Double { data, .. } => json!(data),
        BytesFrame::Array { data, .. } | BytesFrame::Push { data, .. } => Value::Array(data.iter().map(to_json).collect()),
        BytesFrame::Set { data, .. } => Value::Array(data.iter().map(to_json).collect()),
        BytesFrame::Map { data, .. } => {
            let mut m = serde_json::Map::new();
            for (k, v) in data {
                let key = match to_json(k) {
                    Value::String(s) => s,
                    other => other.to_string(),
                };
                m.insert(key, to_json(v));
            }
            Value::Object(m)
        }
        _ => json!("<other frame>"),
    }
}

impl Client {
    async fn connect(port: u16) -> Result<Client, String> {
        let s = TcpStream::connect(("127.0.0.1", port)).await.map_err(|e| format!("connect: {e}"))?;
        let _ = s.set_nodelay(true);
        Ok(Client { s, buf: BytesMut::new() })
    }
    async fn send(&mut self, args: &[Vec<u8>]) -> Result<(), String> {
        let mut out = Vec::new();
        out.extend_from_slice(format!("*{}\r\n", args.len()).as_bytes());
        for a in args {
            out.extend_from_slice(format!("${}\r\n", a.len()).as_bytes());
            out.extend_from_slice(a);
            out.extend_from_slice(b"\r\n");
        }
        self.s.write_all(&out).await.map_err(|e| format!("write: {e}"))
    }
    /// next frame (reply or push); Err("closed") when the server closed the connection
    async fn recv(&mut self, wait: Duration) -> Result<BytesFrame, String> {
        let deadline = tokio::time::Instant::now() + wait;
        loop {
            match decode_bytes_mut(&mut self.buf) {
                Ok(Some((frame, _, _))) => return Ok(frame),
                Ok(None) => {}
                Err(e) => return Err(format!("undecodable reply: {e}")),
            }
            let mut tmp = [0u8; 8192];
            match tokio::time::timeout_at(deadline, self.s.read(&mut tmp)).await {
                Err(_) => return Err("timeout".into()),
                Ok(Ok(0)) => return Err("closed".into()),
                Ok(Ok(n)) => self.buf.extend_from_slice(&tmp[..n]),
                Ok(Err(e)) => return Err(format!("closed ({e})")),
            }
        }
    }
    async fn call(&mut self, args: &[Vec<u8>]) -> Result<Value, String> {
        self.send(args).await?;
        let f = self.recv(Duration::from_secs(20)).await?;
        Ok(to_json(&f))
    }
}

fn a(parts: &[&str]) -> Vec<Vec<u8>> {
    parts.iter().map(|s| s.as_bytes().to_vec()).collect()
}

// ---------------------------------------------------------------------------------------------
// model of one history's partition

#[derive(Clone, Debug)]
struct MEv {
    id: String,
    stream: String,
    version: u64,
    seq: u64,
    ts_ms: Option<u64>, // None: the server chose "now"
    name: String,
    payload: String,
}

#[derive(Default)]
struct Model {
    evs: Vec<MEv>,
}

impl Model {
    fn version(&self, stream: &str) -> Option<u64> {
        self.evs.iter().filter(|e| e.stream == stream).map(|e| e.version).max()
    }
}

struct Proc {
    rt: tokio::runtime::Runtime,
    node: Option<Node>,
    ports: (u16, u16), // (lenient, strict)
    db: Option<(std::path::PathBuf, sierradb::database::Database)>,
}

thread_local! {
    static PROC: std::cell::RefCell<Option<Proc>> = const { std::cell::RefCell::new(None) };
}

const PARTS: u16 = 2048;

fn free_port() -> u16 {
    std::net::TcpListener::bind("127.0.0.1:0").and_then(|l| l.local_addr()).map(|a| a.port()).unwrap_or_else(|e| vcommon::machinery_fail(&format!("no free port: {e}")))
}

struct Hist<'a> {
    slot: u16,
    cmds: &'a [C],
    idx: usize,
    strict: bool,
}

fn is_error(v: &Value) -> Option<String> {
    v.get("error").and_then(|e| e.as_str()).map(|s| s.to_string())
}

fn event_matches(got: &Value, e: &MEv, pk: &str, slot: u16) -> Option<String> {
    let chk = |k: &str, want: Value| -> Option<String> {
        if got.get(k) != Some(&want) {
            Some(format!("field {k}: got {:?}, model {want}", got.get(k)))
        } else {
            None
        }
    };
    chk("event_id", json!(e.id))
        .or_else(|| chk("partition_key", json!(pk)))
        .or_else(|| chk("partition_id", json!(slot)))
        .or_else(|| chk("partition_sequence", json!(e.seq)))
        .or_else(|| chk("stream_version", json!(e.version)))
        .or_else(|| chk("stream_id", json!(e.stream)))
        .or_else(|| chk("event_name", json!(e.name)))
        .or_else(|| chk("payload", json!(e.payload)))
        .or_else(|| e.ts_ms.and_then(|t| chk("timestamp", json!(t))))
}

async fn run_history(port: u16, h: &Hist<'_>, out: &mut WorkerOut) {
    let slot = h.slot;
    let pk = pkey(slot).to_string();
    let streams = [format!("h{slot}s0"), format!("h{slot}s1")];
    let case = json!({"strict": h.strict, "chunk": h.idx / CHUNK, "only": h.idx});
    let desc = format!("history {:?} (strict versioning {})", h.cmds, h.strict);
    let mut m = Model::default();
    let mut counter = 0u64;
    let mut cl = match Client::connect(port).await {
        Ok(c) => c,
        Err(e) => vcommon::machinery_fail(&format!("C22: {e}")),
    };
    macro_rules! fail {
        ($key:expr, $($arg:tt)*) => {{
            out.violation(&format!("C22/{}", $key), &format!("{}; {desc}", format!($($arg)*)), case.clone());
            return;
        }};
    }
    // one command; returns the reply or reports a crashed connection
    macro_rules! call {
        ($what:expr, $args:expr) => {{
            out.transitions += 1;
            match cl.call(&$args).await {
                Ok(v) => v,
                Err(e) => fail!(format!("connection-lost/{}", $what), "the connection broke on `{}` ({e})", $args.iter().map(|x| String::from_utf8_lossy(x).into_owned()).collect::<Vec<_>>().join(" ")),
            }
        }};
    }
    macro_rules! expect_error_and_alive {
        ($what:expr, $reply:expr, $cmdtxt:expr) => {{
            if is_error(&$reply).is_none() {
                fail!(format!("{}/accepted-should-reject", $what), "`{}` answered {} although the model rejects it", $cmdtxt, $reply);
            }
            let pong = call!("ping-after-error", a(&["PING"]));
            if pong != json!("PONG") {
                fail!(format!("{}/connection-unusable-after-error", $what), "PING after the error reply of `{}` answered {pong}", $cmdtxt);
            }
        }};
    }
    for (ci, c) in h.cmds.iter().enumerate() {
        match *c {
            C::Append { stream, exp, ts } => {
                counter += 1;
                let s = &streams[stream as usize];
                let cur = m.version(s);
                let name = format!("E{counter}");
                let payload = format!("payload-{counter}");
                let mut args = a(&["EAPPEND", s, &name, "PARTITION_KEY", &pk, "PAYLOAD", &payload]);
                let (exp_txt, model_ok): (Option<String>, bool) = match exp {
                    Exp::Absent => (None, true),
                    Exp::Any => (Some("any".into()), true),
                    Exp::Exists => (Some("exists".into()), cur.is_some()),
                    Exp::Empty => (Some("empty".into()), cur.is_none()),
                    Exp::ExactRight => match cur {
                        Some(v) => (Some(v.to_string()), true),
                        None => (Some("empty".into()), true),
                    },
                    Exp::ExactWrong => (Some((cur.map(|v| v + 1).unwrap_or(0) + 4).to_string()), false),
                };
                if let Some(e) = &exp_txt {
                    args.extend(a(&["EXPECTED_VERSION", e]));
                }
                let strict_reject = h.strict && matches!(exp, Exp::Absent | Exp::Any | Exp::Exists);
                let (ts_txt, ts_ok, ts_ms) = match ts {
                    Ts::Absent => (None, true, None),
                    Ts::Zero => (Some("0".to_string()), true, Some(0)),
                    Ts::MaxOk => (Some(MS_MAX_OK.to_string()), true, Some(MS_MAX_OK)),
                    Ts::FirstBad => (Some(MS_FIRST_BAD.to_string()), false, None),
                    Ts::U64Max => (Some(u64::MAX.to_string()), false, None),
                };
                if let Some(t) = &ts_txt {
                    args.extend(a(&["TIMESTAMP", t]));
                }
                let txt = args.iter().map(|x| String::from_utf8_lossy(x).into_owned()).collect::<Vec<_>>().join(" ");
                let reply = call!("eappend", args);
                if model_ok && ts_ok && !strict_reject {
                    if let Some(e) = is_error(&reply) {
                        fail!("eappend/rejected-should-accept", "`{txt}` failed with {e:?} although the model accepts it (step {ci})");
                    }
                    let seq = m.evs.len() as u64;
                    let ver = cur.map(|v| v + 1).unwrap_or(0);
                    let id = reply.get("event_id").and_then(|x| x.as_str()).unwrap_or("").to_string();
                    let bad = if reply.get("partition_sequence") != Some(&json!(seq)) {
                        Some(format!("partition_sequence {:?}, model {seq}", reply.get("partition_sequence")))
                    } else if reply.get("stream_version") != Some(&json!(ver)) {
                        Some(format!("stream_version {:?}, model {ver}", reply.get("stream_version")))
                    } else if reply.get("partition_id") != Some(&json!(slot)) || reply.get("partition_key") != Some(&json!(pk)) {
                        Some(format!("partition {:?}/{:?}", reply.get("partition_id"), reply.get("partition_key")))
                    } else if let Some(t) = ts_ms {
                        if reply.get("timestamp") != Some(&json!(t)) { Some(format!("timestamp {:?}, sent {t}", reply.get("timestamp"))) } else { None }
                    } else {
                        None
                    };
                    if let Some(b) = bad {
                        fail!("eappend/wrong-reply", "`{txt}` answered {reply}: {b}");
                    }
                    let ts_model = ts_ms.or_else(|| reply.get("timestamp").and_then(|x| x.as_u64()));
                    m.evs.push(MEv { id, stream: s.clone(), version: ver, seq, ts_ms: ts_model, name, payload });
                } else {
                    expect_error_and_alive!("eappend", reply, txt);
                }
            }
            C::MAppend(kind) => {
                // (stream index, expectation text, timestamp text)
                let spec: Vec<(usize, Option<String>, Option<String>)> = match kind {
                    MKind::One => vec![(0, None, None)],
                    MKind::SameStreamTwice => vec![(0, None, None), (0, None, None)],
                    MKind::TwoStreams => vec![(0, None, None), (1, None, None)],
                    MKind::ABA => vec![(0, None, None), (1, None, None), (0, None, None)],
                    MKind::WrongExpectationOnSecond => vec![(0, None, None), (1, Some("77".into()), None)],
                    MKind::BadTimestampOnSecond => vec![(0, None, None), (1, None, Some(MS_FIRST_BAD.to_string()))],
                };
                let ok = !matches!(kind, MKind::WrongExpectationOnSecond | MKind::BadTimestampOnSecond);
                let mut args = a(&["EMAPPEND", &pk]);
                let mut planned: Vec<(String, String, String)> = Vec::new();
                for (si, e, t) in &spec {
                    counter += 1;
                    let name = format!("M{counter}");
                    let payload = format!("mp-{counter}");
                    args.extend(a(&[&streams[*si], &name, "PAYLOAD", &payload]));
                    if let Some(e) = e {
                        args.extend(a(&["EXPECTED_VERSION", e]));
                    } else if h.strict {
                        unreachable!("MAppend is not in the strict alphabet");
                    }
                    if let Some(t) = t {
                        args.extend(a(&["TIMESTAMP", t]));
                    }
                    planned.push((streams[*si].clone(), name, payload));
                }
                let txt = args.iter().map(|x| String::from_utf8_lossy(x).into_owned()).collect::<Vec<_>>().join(" ");
                let reply = call!("emappend", args);
                if ok {
                    if let Some(e) = is_error(&reply) {
                        fail!("emappend/rejected-should-accept", "`{txt}` failed with {e:?} although the model accepts it");
                    }
                    let first = m.evs.len() as u64;
                    let evs = reply.get("events").and_then(|x| x.as_array()).cloned().unwrap_or_default();
                    if reply.get("first_partition_sequence") != Some(&json!(first)) || reply.get("last_partition_sequence") != Some(&json!(first + planned.len() as u64 - 1)) || evs.len() != planned.len() {
                        fail!("emappend/wrong-reply", "`{txt}` answered {reply}; the model expects sequences {first}..={} and {} events", first + planned.len() as u64 - 1, planned.len());
                    }
                    for (k, (s, name, payload)) in planned.into_iter().enumerate() {
                        let ver = m.version(&s).map(|v| v + 1).unwrap_or(0);
                        let got = &evs[k];
                        if got.get("stream_version") != Some(&json!(ver)) || got.get("stream_id") != Some(&json!(s)) {
                            fail!("emappend/wrong-event-version-in-reply", "`{txt}` answered {reply}; event {k} is version {ver} of {s} in the model");
                        }
                        let id = got.get("event_id").and_then(|x| x.as_str()).unwrap_or("").to_string();
                        let ts = got.get("timestamp").and_then(|x| x.as_u64());
                        m.evs.push(MEv { id, stream: s, version: ver, seq: first + k as u64, ts_ms: ts, name, payload });
                    }
                } else {
                    expect_error_and_alive!("emappend", reply, txt);
                }
            }
            C::GetFirst => {
                let Some(e) = m.evs.first() else {
                    continue;
                };
                let reply = call!("eget", a(&["EGET", &e.id]));
                if let Some(er) = is_error(&reply) {
                    fail!("eget/error", "EGET of the first event failed: {er}");
                }
                if reply.is_null() {
                    fail!("eget/existing-event-not-found", "EGET {} answered null", e.id);
                }
                if let Some(d) = event_matches(&reply, e, &pk, slot) {
                    fail!("eget/wrong-event", "EGET {} answered {reply}: {d}", e.id);
                }
            }
            C::GetUnknown => {
                let id = eid(slot, 999_999).to_string();
                let reply = call!("eget", a(&["EGET", &id]));
                if !reply.is_null() {
                    fail!("eget/unknown-id-not-null", "EGET of an unknown id answered {reply}");
                }
            }
            C::GetMalformed => {
                let reply = call!("eget", a(&["EGET", "not-a-uuid"]));
                expect_error_and_alive!("eget", reply, "EGET not-a-uuid");
            }
            C::Scan { partition, range, count } => {
                let s = &streams[0];
                let items: Vec<&MEv> = if partition { m.evs.iter().collect() } else { m.evs.iter().filter(|e| &e.stream == s).collect() };
                let pos = |e: &MEv| if partition { e.seq } else { e.version };
                let len = items.len() as u64;
                let (st, en, lo, hi): (String, String, u64, Option<u64>) = match range {
                    Range::All => ("-".into(), "+".into(), 0, None),
                    Range::ZeroZero => ("0".into(), "0".into(), 0, Some(0)),
                    Range::OnePlus => ("1".into(), "+".into(), 1, None),
                    Range::LenPlus => (len.to_string(), "+".into(), len, None),
                    Range::StartAfterEnd => ("2".into(), "1".into(), 2, Some(1)),
                };
                let mut args = if partition { a(&["EPSCAN", &pk, &st, &en]) } else { a(&["ESCAN", s, &st, &en, "PARTITION_KEY", &pk]) };
                if let Some(c) = count {
                    args.extend(a(&["COUNT", &c.to_string()]));
                }
                let txt = args.iter().map(|x| String::from_utf8_lossy(x).into_owned()).collect::<Vec<_>>().join(" ");
                let what = if partition { "epscan" } else { "escan" };
                let reply = call!(what, args);
                if let Some(e) = is_error(&reply) {
                    fail!(format!("{what}/error"), "`{txt}` failed: {e}");
                }
                let in_range: Vec<&&MEv> = items.iter().filter(|e| pos(e) >= lo && hi.map(|h| pos(e) <= h).unwrap_or(true)).collect();
                let limit = count.unwrap_or(100) as usize;
                let want: Vec<&&MEv> = in_range.iter().take(limit).copied().collect();
                let got = reply.get("events").and_then(|x| x.as_array()).cloned().unwrap_or_default();
                if got.len() != want.len() {
                    fail!(format!("{what}/wrong-events"), "`{txt}` returned {} events, the model has {} in range (limit {limit}): {reply}", got.len(), want.len());
                }
                for (g, w) in got.iter().zip(&want) {
                    if let Some(d) = event_matches(g, w, &pk, slot) {
                        fail!(format!("{what}/wrong-events"), "`{txt}`: {d}");
                    }
                }
                let more_in_model = in_range.len() > want.len();
                if more_in_model && reply.get("has_more") != Some(&json!(true)) {
                    fail!(format!("{what}/has-more-hides-events"), "`{txt}` answered has_more = {:?} although the model has {} more matching events", reply.get("has_more"), in_range.len() - want.len());
                }
            }
            C::SVer(si) => {
                let reply = call!("esver", a(&["ESVER", &streams[si as usize], "PARTITION_KEY", &pk]));
                let want = m.version(&streams[si as usize]).map(|v| json!(v)).unwrap_or(Value::Null);
                if reply != want {
                    fail!("esver/wrong-version", "ESVER answered {reply}, the model says {want}");
                }
            }
            C::PSeq => {
                let reply = call!("epseq", a(&["EPSEQ", &pk]));
                let want = m.evs.last().map(|e| json!(e.seq)).unwrap_or(Value::Null);
                if reply != want {
                    fail!("epseq/wrong-sequence", "EPSEQ answered {reply}, the model says {want}");
                }
            }
        }
    }
    // audit of the stored state
    let reply = call!("audit-epscan", a(&["EPSCAN", &pk, "-", "+"]));
    let got = reply.get("events").and_then(|x| x.as_array()).cloned().unwrap_or_default();
    if is_error(&reply).is_some() || got.len() != m.evs.len() || got.iter().zip(&m.evs).any(|(g, w)| event_matches(g, w, &pk, slot).is_some()) {
        fail!("audit/partition-differs-from-model", "after the history EPSCAN - + answered {reply}; the model holds {:?}", m.evs.iter().map(|e| (&e.stream, e.version, e.seq)).collect::<Vec<_>>());
    }
    for s in &streams {
        let reply = call!("audit-esver", a(&["ESVER", s, "PARTITION_KEY", &pk]));
        let want = m.version(s).map(|v| json!(v)).unwrap_or(Value::Null);
        if reply != want {
            fail!("audit/stream-version-differs-from-model", "after the history ESVER {s} answered {reply}, the model says {want}");
        }
    }
    for e in &m.evs {
        let reply = call!("audit-eget", a(&["EGET", &e.id]));
        if reply.is_null() || event_matches(&reply, e, &pk, slot).is_some() {
            fail!("audit/event-differs-from-model", "after the history EGET {} answered {reply}", e.id);
        }
    }
    // subscription: ESUB from 0 with WINDOW 1 on its own connection, acknowledged one by one
    let mine: Vec<&MEv> = m.evs.iter().filter(|e| e.stream == streams[0]).collect();
    if !mine.is_empty() && h.idx % 7 == 0 {
        let mut sc = match Client::connect(port).await {
            Ok(c) => c,
            Err(e) => vcommon::machinery_fail(&format!("C22: {e}")),
        };
        if sc.send(&a(&["ESUB", &streams[0], "PARTITION_KEY", &pk, "FROM", "0", "WINDOW", "1"])).await.is_err() {
            fail!("esub/connection-lost", "ESUB could not be sent");
        }
        let mut sub_id: Option<String> = None;
        let mut delivered: Vec<Value> = Vec::new();
        let mut guard = 0;
        while delivered.len() < mine.len() {
            guard += 1;
            if guard > 200 {
                break;
            }
            match sc.recv(Duration::from_secs(5)).await {
                Err(e) => fail!("esub/records-missing", "ESUB FROM 0 WINDOW 1 delivered {} of {} records, then: {e}", delivered.len(), mine.len()),
                Ok(f) => {
                    let v = to_json(&f);
                    if let Some(e) = is_error(&v) {
                        fail!("esub/error", "ESUB failed: {e}");
                    }
                    match (&f, v.as_array()) {
                        (BytesFrame::Push { .. }, Some(arr)) if arr.first() == Some(&json!("message")) => {
                            let cursor = arr.get(2).cloned().unwrap_or(Value::Null);
                            delivered.push(arr.get(3).cloned().unwrap_or(Value::Null));
                            if let Some(id) = &sub_id {
                                let _ = sc.send(&a(&["EACK", id, &cursor.to_string()])).await;
                            }
                        }
                        (BytesFrame::Push { .. }, _) => {}
                        (_, _) => {
                            if sub_id.is_none() {
                                sub_id = v.as_str().map(|s| s.to_string());
                            }
                        }
                    }
                }
            }
        }
        for (g, w) in delivered.iter().zip(&mine) {
            if let Some(d) = event_matches(g, w, &pk, slot) {
                fail!("esub/wrong-record", "ESUB FROM 0 delivered {g}: {d}");
            }
        }
        out.count("subscriptions_checked", 1);
    }
    out.evals += 1;
    out.outcome(format!("{}ev/{}cmds", m.evs.len(), h.cmds.len()));
}

fn run_case(case: &Case, thorough: bool, out: &mut WorkerOut) {
    PROC.with(|pc| {
        let mut pc = pc.borrow_mut();
        if pc.is_none() {
            *pc = Some(Proc { rt: rt(4), node: None, ports: (0, 0), db: None });
        }
        let Proc { rt, node, ports, db } = pc.as_mut().unwrap();
        let all = histories(case.strict, thorough);
        let lo = case.chunk * CHUNK;
        let hi = ((case.chunk + 1) * CHUNK).min(all.len());
        rt.block_on(async {
            // fresh database for this chunk
            if let Some((dir, old)) = db.take() {
                let _ = tokio::time::timeout(Duration::from_secs(10), old.shutdown()).await;
                drop(old);
                let _ = std::fs::remove_dir_all(&dir);
            }
            let dir = scratch("c22");
            let d = open_db(&dir);
            match node {
                None => {
                    let n = Node::start(d.clone(), 1, PARTS).await;
                    let caches = d.reader_pool().caches().clone();
                    *ports = (free_port(), free_port());
                    for (port, strict) in [(ports.0, false), (ports.1, true)] {
                        let srv = Server::new(n.cluster.clone(), caches.clone(), PARTS, 8 * 1024 * 1024, strict, CancellationToken::new());
                        tokio::spawn(async move {
                            if let Err(e) = srv.listen(("127.0.0.1", port)).await {
                                eprintln!("server on port {port} failed: {e}");
                            }
                        });
                    }
                    // wait until both accept
                    for port in [ports.0, ports.1] {
                        let mut ok = false;
                        for _ in 0..200 {
                            if TcpStream::connect(("127.0.0.1", port)).await.is_ok() {
                                ok = true;
                                break;
                            }
                            tokio::time::sleep(Duration::from_millis(10)).await;
                        }
                        if !ok {
                            vcommon::machinery_fail("the RESP server did not start listening");
                        }
                    }
                    *node = Some(n);
                }
                Some(n) => n.reset(d.clone()).await,
            }
            *db = Some((dir, d));
            let port = if case.strict { ports.1 } else { ports.0 };
            for i in lo..hi {
                if let Some(o) = case.only {
                    if o != i {
                        continue;
                    }
                }
                let slot = (i - lo) as u16;
                let h = Hist { slot, cmds: &all[i], idx: i, strict: case.strict };
                out.state(vcommon::fnv(format!("{}{:?}", case.strict, all[i]).as_bytes()));
                run_history(port, &h, out).await;
                if i % 997 == 0 {
                    out.sample(json!({"strict_versioning": case.strict, "history": all[i]}));
                }
            }
        });
    });
}

fn cases(thorough: bool) -> Vec<Case> {
    let mut v = Vec::new();
    for strict in [false, true] {
        let n = histories(strict, thorough).len();
        for chunk in 0..n.div_ceil(CHUNK) {
            v.push(Case { strict, chunk, only: None });
        }
    }
    v
}

pub fn run(args: Args) {
    let tier = args.tier;
    let thorough = tier.is_thorough();
    let all = cases(thorough);
    if let Some(spec) = workers::worker_spec(&args.extra) {
        let order: Vec<usize> = (0..all.len()).collect();
        workers::worker_loop(&spec, &order, |idx, out| run_case(&all[idx], thorough, out));
    }
    let mut ctx = Ctx::new("C22", tier, "model_checking");
    if let Some(path) = &args.replay {
        ctx.replay_mode = true;
        let v = vcommon::load_replay(path);
        let v = if v.get("died").is_some() { v["case"].clone() } else { v };
        let case: Case = serde_json::from_value(v).unwrap_or_else(|e| vcommon::machinery_fail(&format!("replay case: {e}")));
        let mut out = WorkerOut { collected: Some(vec![]), ..Default::default() };
        // replay files are written by the tier that found them; try both enumerations' indices
        run_case(&case, thorough, &mut out);
        let got = out.collected.take().unwrap();
        if got.is_empty() {
            println!("replay: the case agrees with the oracle (note: history indices depend on the tier; replay with the tier that found it)");
        }
        for (k, d, c) in got {
            ctx.violation(&k, &d, c);
        }
        ctx.finish(json!({"replay": path.display().to_string()}), vec![]);
    }
    let cap = Duration::from_secs(if thorough { 1500 } else { 50 });
    let m = workers::parent_run(&ctx, all.len(), &["C22".to_string(), tier.as_str().to_string()], cap, "C22/process-died", |pos| serde_json::to_value(&all[pos]).unwrap_or_default());
    if m.capped {
        ctx.note(format!("wall cap hit: {} of {} database instances executed", m.cases_done, all.len()));
    }
    let coverage = json!({
        "states": m.states.len(),
        "transitions": m.transitions,
        "traces_validated_against_impl": m.evals,
        "samples": m.samples,
        "exhaustive": !m.capped,
        "histories_enumerated": {"lenient": histories(false, thorough).len(), "strict_versioning": histories(true, thorough).len()},
        "histories_executed": m.evals,
        "commands_sent": m.transitions,
        "subscriptions_checked": m.counters.get("subscriptions_checked").copied().unwrap_or(0),
        "distinct_observed_outcomes": m.outcomes.len(),
        "bounds": {
            "alphabet_lenient": alphabet(false).len(),
            "alphabet_strict": alphabet(true).len(),
            "depth": if thorough { "all histories of 1 and 2 commands; 3 commands with two leading writes; 4 commands = three writes of the version-relevant sub-alphabet + one read" } else { "all histories of 1 and 2 commands; 3 commands with two leading writes (one third of the write pairs)" },
            "audit": "after every history: EPSCAN - +, ESVER of both streams, EGET of every event; for every 7th history ESUB FROM 0 WINDOW 1 with EACK per record",
        },
        "what_states_are": "distinct (strictness, command history) pairs, each executed over TCP against the real server on its own partition",
    });
    ctx.finish(
        coverage,
        vec![
            "single node, rf 1; timestamps chosen by the server (TIMESTAMP absent) are taken from its reply and then required to stay the same in later reads".into(),
            "has_more is judged one-sidedly (false while the model has further matching events is a violation), as the property states".into(),
            "the build has overflow checks and debug assertions on, like the repository's test profile; a handler panic shows up as a closed connection".into(),
        ],
    )
}
