//! C12 — replicas apply replicated writes in sequence order, each at most once.
//!
//! A coordinator script (transactions T0..Tn with their assigned first sequences) is written, confirmed,
//! to the coordinator's database through the process's real `ClusterActor` (rf 1).  A real
//! `PartitionReplicatorActor` with its own database and `ConfirmationActor` plays the replica.  Every
//! arrival order of the script's `ReplicateWrite` messages - optionally with one duplicate, one
//! conflicting transaction, one missing transaction and one injected catch-up response (hook H5) - is
//! delivered (each order on a fresh partition); afterwards the replica's log and every reply are
//! judged.
//!
//! Mode A (`timers = false`): catch-up and buffer timeouts are one hour, so the outcome is a function of
//! the arrival order alone; an empty catch-up response sent last serves as a barrier (the mailbox is
//! FIFO and handlers run to completion).
//! Mode B (`timers = true`): catch-up after 150 ms, buffered replies expire after 400 ms; the replica's
//! catch-up request is answered by the real coordinator actor from its database; after a horizon every
//! ask must have been answered.

use std::collections::{BTreeMap, HashSet};
use std::time::Duration;

use kameo::actor::Spawn;
use serde::{Deserialize, Serialize};
use serde_json::json;
use sierradb::IterDirection;
use sierradb::bucket::segment::CommittedEvents;
use sierradb::database::{Database, ExpectedVersion};
use sierradb_cluster::confirmation::actor::ConfirmationActor;
use sierradb_cluster::write::execute::ExecuteTransaction;
use sierradb_cluster::write::replicate::{PartitionReplicatorActor, PartitionReplicatorActorArgs, ReplicateWrite, VerifSyncResponse};
use vcommon::workers::{self, WorkerOut};
use vcommon::{Args, Ctx};

use crate::cx::*;

#[derive(Serialize, Deserialize, Clone, Debug, PartialEq, Eq, Hash)]
pub struct Case {
    /// number of events of each script transaction
    pub lens: Vec<u8>,
    /// script transaction that is never delivered
    pub missing: Option<usize>,
    /// script transaction delivered twice
    pub dup: Option<usize>,
    /// a conflicting transaction: (inside, j) claims the first sequence of T_j, or the second sequence
    /// of the two-event T_j when `inside`
    pub x: Option<(bool, usize)>,
    /// injected catch-up response (mode A only): the commits T_j..T_{m-1}, i.e. what the coordinator
    /// answers to a request made when the replica's next expected sequence was T_j's and its oldest
    /// buffered write was T_m.  It is only delivered at a point where T_0..T_{j-1} have all arrived
    /// (the replica's next sequence never goes back, so a real response cannot arrive earlier).
    pub catchup: Option<(usize, usize)>,
    /// all events on one stream (stream versions then chain across transactions) or one stream per
    /// transaction
    #[serde(default)]
    pub stream_per_tx: bool,
    pub timers: bool,
    pub buffer: usize,
    /// none of the catch-up range's transactions is delivered as a replicated write (they only come with the
    /// catch-up response); combined with a conflicting transaction that claims a sequence inside the range
    #[serde(default)]
    pub range_missing: bool,
    /// replay: only this arrival order
    #[serde(default)]
    pub only_order: Option<Vec<usize>>,
}

#[derive(Clone, Debug, PartialEq, Eq)]
enum Msg {
    T(usize),
    X,
    CatchUp(usize, usize),
}

fn permutations<T: Clone>(items: &[T]) -> Vec<Vec<usize>> {
    fn go(n: usize, cur: &mut Vec<usize>, out: &mut Vec<Vec<usize>>) {
        if cur.len() == n {
            out.push(cur.clone());
            return;
        }
        for i in 0..n {
            if !cur.contains(&i) {
                cur.push(i);
                go(n, cur, out);
                cur.pop();
            }
        }
    }
    let mut out = Vec::new();
    go(items.len(), &mut Vec::new(), &mut out);
    out
}

struct Script {
    first: Vec<u64>,
    lens: Vec<u8>,
    stream_per_tx: bool,
}

impl Script {
    fn new(lens: &[u8], stream_per_tx: bool) -> Script {
        let mut first = Vec::new();
        let mut at = 0u64;
        for l in lens {
            first.push(at);
            at += *l as u64;
        }
        Script { first, lens: lens.to_vec(), stream_per_tx }
    }
    /// the transaction T_i for partition p (deterministic ids); `x` builds the conflicting one
    fn tx(&self, p: u16, i: usize, conf: u8) -> sierradb::database::Transaction {
        let evs: Vec<EvSpec> = (0..self.lens[i] as u64)
            .map(|k| {
                let seq = self.first[i] + k;
                let (stream, version) = if self.stream_per_tx { (format!("r{p}t{i}"), k) } else { (format!("r{p}"), seq) };
                EvSpec { id: eid(p, seq + 1), stream, exp: ExpectedVersion::from_next_version(version), name: "E".into(), timestamp: 1_700_000_000_000_000_000 + seq, payload: vec![seq as u8] }
            })
            .collect();
        make_tx(p, txid(p, i as u64, evs.len() == 1), &evs, ExpectedVersion::from_next_version(self.first[i]), conf)
    }
    fn x_tx(&self, p: u16, inside: bool, j: usize) -> (sierradb::database::Transaction, u64, u64) {
        let claimed = self.first[j] + if inside { 1 } else { 0 };
        let len = if inside { 1 } else { self.lens[j] as u64 };
        let evs: Vec<EvSpec> = (0..len)
            .map(|k| {
                let seq = claimed + k;
                let (stream, version) = if self.stream_per_tx { (format!("r{p}x"), k) } else { (format!("r{p}"), seq) };
                EvSpec { id: eid(p, 1000 + seq), stream, exp: ExpectedVersion::from_next_version(version), name: "X".into(), timestamp: 1_700_000_000_000_000_000 + seq, payload: vec![0xEE] }
            })
            .collect();
        (make_tx(p, txid(p, 900, evs.len() == 1), &evs, ExpectedVersion::from_next_version(claimed), 0), claimed, len)
    }
}

struct Proc {
    rt: tokio::runtime::Runtime,
    node: Option<Node>,
    db_c: Option<(std::path::PathBuf, Database)>,
    db_r: Option<(std::path::PathBuf, Database)>,
    /// the replica node's one confirmation actor (as on a real node: one per database)
    conf_r: Option<kameo::actor::ActorRef<ConfirmationActor>>,
    next_partition: u16,
}

thread_local! {
    static PROC: std::cell::RefCell<Option<Proc>> = const { std::cell::RefCell::new(None) };
}

const PARTS: u16 = 2048;

async fn fresh_pair(
    pr_node: &mut Option<Node>,
    db_c: &mut Option<(std::path::PathBuf, Database)>,
    db_r: &mut Option<(std::path::PathBuf, Database)>,
    conf_r: &mut Option<kameo::actor::ActorRef<ConfirmationActor>>,
) {
    if let Some(c) = conf_r.take() {
        let _ = c.stop_gracefully().await;
        c.wait_for_shutdown().await;
    }
    for slot in [&mut *db_c, &mut *db_r] {
        if let Some((dir, db)) = slot.take() {
            let _ = tokio::time::timeout(Duration::from_secs(10), db.shutdown()).await;
            drop(db);
            let _ = std::fs::remove_dir_all(&dir);
        }
    }
    let dc = scratch("c12c");
    let dr = scratch("c12r");
    let c = open_db(&dc);
    let r = open_db(&dr);
    match pr_node {
        None => *pr_node = Some(Node::start(c.clone(), 1, PARTS).await),
        Some(n) => n.reset(c.clone()).await,
    }
    let conf = ConfirmationActor::new(r.clone(), 1, HashSet::from_iter(0..PARTS)).await.unwrap_or_else(|e| vcommon::machinery_fail(&format!("replica ConfirmationActor: {e}")));
    *conf_r = Some(ConfirmationActor::spawn(conf));
    *db_c = Some((dc, c));
    *db_r = Some((dr, r));
}

#[derive(Debug)]
enum Reply {
    Ok(u64, u64),
    Err(String),
    Pending,
}

struct RunResult {
    log: Vec<(uuid::Uuid, u64, u64)>, // (transaction id, first sequence, events)
    replies: Vec<(Msg, Reply)>,
    alive: bool,
}

#[allow(clippy::too_many_arguments)]
async fn run_order(node: &Node, db_c: &Database, db_r: &Database, conf_ref: &kameo::actor::ActorRef<ConfirmationActor>, p: u16, script: &Script, case: &Case, msgs: &[Msg], order: &[usize]) -> Result<RunResult, String> {
    // coordinator: the whole script, confirmed (rf 1)
    for i in 0..script.lens.len() {
        let r = node.cluster.ask(ExecuteTransaction::new(script.tx(p, i, 0))).await;
        if let Err(e) = r {
            return Err(format!("coordinator setup write failed: {e}"));
        }
    }
    let coordinator_ref = node.cluster.clone().into_remote_ref().await;
    let (catchup_timeout, buffer_timeout) = if case.timers { (Duration::from_millis(150), Duration::from_millis(400)) } else { (Duration::from_secs(3600), Duration::from_secs(3600)) };
    let rep = PartitionReplicatorActor::spawn(PartitionReplicatorActorArgs { partition_id: p, database: db_r.clone(), confirmation_ref: conf_ref.clone(), buffer_size: case.buffer, buffer_timeout, catchup_timeout });
    rep.wait_for_startup().await;
    let mut pend = Vec::new();
    for &oi in order {
        let m = &msgs[oi];
        match m {
            Msg::T(i) => {
                let tx = script.tx(p, *i, 0);
                let pr = rep.ask(ReplicateWrite { coordinator_ref: coordinator_ref.clone(), coordinator_alive_since: 0, transaction: tx }).enqueue().await;
                pend.push((m.clone(), pr.map_err(|e| e.to_string())));
            }
            Msg::X => {
                let (inside, j) = case.x.unwrap();
                let (tx, _, _) = script.x_tx(p, inside, j);
                let pr = rep.ask(ReplicateWrite { coordinator_ref: coordinator_ref.clone(), coordinator_alive_since: 0, transaction: tx }).enqueue().await;
                pend.push((m.clone(), pr.map_err(|e| e.to_string())));
            }
            Msg::CatchUp(j, m2) => {
                let mut commits: Vec<CommittedEvents> = Vec::new();
                for k in *j..*m2 {
                    let commit: Option<CommittedEvents> = db_c.read_transaction(p, eid(p, script.first[k] + 1)).await.map_err(|e| e.to_string())?;
                    let Some(commit) = commit else { return Err("coordinator does not hold the catch-up transaction".into()) };
                    commits.push(commit);
                }
                if let Err(e) = rep.tell(VerifSyncResponse(commits)).await {
                    return Err(format!("catch-up injection failed: {e}"));
                }
            }
        }
    }
    if case.timers {
        tokio::time::sleep(Duration::from_millis(1400)).await;
    }
    // barrier: an empty catch-up response (FIFO mailbox, handlers run to completion)
    let alive = tokio::time::timeout(Duration::from_secs(20), rep.ask(VerifSyncResponse(vec![]))).await.map(|r| r.is_ok()).unwrap_or(false);
    let mut replies = Vec::new();
    for (m, pr) in pend {
        let r = match pr {
            Err(e) => Reply::Err(format!("send failed: {e}")),
            Ok(pr) => match tokio::time::timeout(Duration::from_millis(if alive { 60 } else { 5 }), pr).await {
                Err(_) => Reply::Pending,
                Ok(Ok(a)) => Reply::Ok(a.first_partition_sequence, a.last_partition_sequence),
                Ok(Err(e)) => Reply::Err(e.to_string()),
            },
        };
        replies.push((m, r));
    }
    // the replica's log
    let mut log = Vec::new();
    let mut it = db_r.read_partition(p, 0, IterDirection::Forward).await.map_err(|e| e.to_string())?;
    while let Some(batch) = it.next_batch(50).await.map_err(|e| e.to_string())? {
        for c in batch {
            let id = *c.transaction_id();
            let first = c.first_partition_sequence().unwrap_or(u64::MAX);
            let n = c.into_iter().count() as u64;
            log.push((id, first, n));
        }
    }
    let _ = rep.stop_gracefully().await;
    Ok(RunResult { log, replies, alive })
}

fn judge(case: &Case, script: &Script, p: u16, msgs: &[Msg], order: &[usize], res: &RunResult, out: &mut WorkerOut) {
    let mut rj = serde_json::to_value(case).unwrap();
    rj["only_order"] = json!(order);
    let arrival: Vec<String> = order.iter().map(|&i| format!("{:?}", msgs[i])).collect();
    let ctxs = format!("script lens {:?} (first sequences {:?}), arrival order {arrival:?}, buffer {}, timers {}", script.lens, script.first, case.buffer, case.timers);
    let mut fail = |out: &mut WorkerOut, key: &str, what: String| out.violation(&format!("C12/{key}"), &format!("{what}; {ctxs}; replica log {:?}; replies {:?}", res.log.iter().map(|(_, f, n)| (*f, *n)).collect::<Vec<_>>(), res.replies), rj.clone());
    if !res.alive {
        fail(out, "replicator-died", "the replicator actor stopped answering (panic in a handler?)".into());
        return;
    }
    // who is who
    let mut assigned: BTreeMap<uuid::Uuid, (String, u64, u64)> = BTreeMap::new();
    for i in 0..script.lens.len() {
        assigned.insert(txid(p, i as u64, script.lens[i] == 1), (format!("T{i}"), script.first[i], script.lens[i] as u64));
    }
    if let Some((inside, j)) = case.x {
        let (_, claimed, len) = script.x_tx(p, inside, j);
        assigned.insert(txid(p, 900, len == 1), ("X".into(), claimed, len));
    }
    // I1 / I2 / gap-freeness
    let mut seen = HashSet::new();
    let mut at = 0u64;
    for (id, first, n) in &res.log {
        let Some((name, want_first, want_n)) = assigned.get(id) else {
            fail(out, "unknown-transaction-in-log", "a transaction nobody sent is in the replica's log".into());
            return;
        };
        if !seen.insert(*id) {
            fail(out, &format!("applied-twice/{}", if case.catchup.is_some() { "with-catch-up-response" } else { "plain" }), format!("{name} was appended twice"));
            return;
        }
        if first != want_first || n != want_n {
            fail(out, "applied-at-wrong-sequence", format!("{name} was appended at sequence {first} ({n} events), the coordinator assigned {want_first} ({want_n} events)"));
            return;
        }
        if *first != at {
            fail(out, "log-has-gap", format!("{name} sits at {first} but the log was at {at}"));
            return;
        }
        at += n;
    }
    let next = at;
    // completeness: leading delivered transactions must have been applied (or their slot taken by X)
    let delivered: HashSet<usize> = msgs.iter().filter_map(|m| if let Msg::T(i) = m { Some(*i) } else { None }).collect();
    let in_log = |name: &str| res.log.iter().any(|(id, _, _)| assigned.get(id).map(|a| a.0 == name).unwrap_or(false));
    let reachable = if case.timers {
        // with catch-up from the coordinator everything up to the newest delivered transaction arrives
        delivered.iter().max().map(|m| m + 1).unwrap_or(0)
    } else {
        let mut k = 0;
        while k < script.lens.len() && delivered.contains(&k) {
            k += 1;
        }
        k
    };
    for i in 0..reachable {
        let slot_taken_by_x = matches!(case.x, Some((false, j)) if j == i) && in_log("X");
        if !in_log(&format!("T{i}")) && !slot_taken_by_x {
            // buffer overflow may legitimately drop writes (they are answered with an error)
            // (the overflow of T_i itself stops everything behind it as well)
            let evicted = res.replies.iter().any(|(m, r)| matches!((m, r), (Msg::T(k), Reply::Err(e)) if *k == i && (e.contains("evicted") || e.contains("full"))));
            if evicted {
                break;
            }
            // timers: a buffered write whose catch-up took longer than the buffer timeout expires (its ask is answered
            // with an error); that is the replica's stated behaviour, and how long a catch-up takes is not ours to bound
            let expired = case.timers && res.replies.iter().any(|(m, r)| matches!((m, r), (Msg::T(k), Reply::Err(_)) if *k == i));
            if expired {
                break;
            }
            // the conflicting transaction X claimed T_i's sequence first: T_i is then the rejected one (which of
            // two claimants of a sequence is "the" conflicting write depends on who came first), and nothing
            // behind it can be applied
            let lost_to_x = matches!(case.x, Some((false, j)) if j == i)
                && res.replies.iter().filter(|(m, _)| *m == Msg::T(i)).all(|(_, r)| matches!(r, Reply::Err(e) if e.contains("already being processed") || e.contains("stale")));
            if lost_to_x {
                break;
            }
            fail(out, &format!("delivered-write-not-applied/{}", if case.timers { "timers" } else { "no-timers" }), format!("T{i} and all its predecessors were delivered but T{i} is not in the log"));
            return;
        }
    }
    // replies
    for (m, r) in &res.replies {
        let name = match m {
            Msg::T(i) => format!("T{i}"),
            Msg::X => "X".to_string(),
            Msg::CatchUp(..) => continue,
        };
        let (_, want_first, want_n) = assigned.values().find(|a| a.0 == name).unwrap().clone();
        match r {
            Reply::Ok(f, l) => {
                if *f != want_first || *l != want_first + want_n - 1 {
                    fail(out, "reply-with-wrong-sequence", format!("{name} was acknowledged at {f}..={l}, assigned {want_first}"));
                    return;
                }
                if !in_log(&name) {
                    fail(out, "acknowledged-but-not-in-log", format!("{name} was acknowledged but is not in the replica's log"));
                    return;
                }
            }
            Reply::Err(_) => {}
            Reply::Pending => {
                if case.timers {
                    fail(out, "ask-never-answered/after-horizon", format!("the ask for {name} was still unanswered 1.4 s after the last delivery (catch-up 150 ms, buffer timeout 400 ms)"));
                    return;
                }
                if want_first < next {
                    fail(out, &format!("pending-below-next-expected/{}", if name == "X" { "conflicting-write" } else { "script-write" }), format!("the ask for {name} (sequence {want_first}) is still pending although the replica's next expected sequence is {next}"));
                    return;
                }
            }
        }
    }
    // a transaction all of whose deliveries were rejected must not be in the log (unless catch-up brought it)
    for (name, _) in assigned.values().map(|a| (a.0.clone(), a.1)) {
        let rs: Vec<&Reply> = res.replies.iter().filter(|(m, _)| match m { Msg::T(i) => format!("T{i}") == name, Msg::X => name == "X", _ => false }).map(|(_, r)| r).collect();
        let by_catchup = case.timers || matches!(case.catchup, Some((j, m2)) if (j..m2).any(|k| format!("T{k}") == name));
        if !rs.is_empty() && rs.iter().all(|r| matches!(r, Reply::Err(_))) && in_log(&name) && !by_catchup {
            fail(out, "rejected-but-applied", format!("every delivery of {name} was answered with an error, yet it is in the log"));
            return;
        }
    }
    out.outcome(format!("log{}:{}", res.log.len(), res.replies.iter().map(|(_, r)| match r { Reply::Ok(..) => 'o', Reply::Err(_) => 'e', Reply::Pending => 'p' }).collect::<String>()));
}

fn messages(case: &Case) -> Vec<Msg> {
    let mut v = Vec::new();
    for i in 0..case.lens.len() {
        let in_missing_range = case.range_missing && matches!(case.catchup, Some((j, m2)) if (j..m2).contains(&i));
        if case.missing != Some(i) && !in_missing_range {
            v.push(Msg::T(i));
        }
    }
    if let Some(d) = case.dup {
        v.push(Msg::T(d));
    }
    if case.x.is_some() {
        v.push(Msg::X);
    }
    if let Some((j, m2)) = case.catchup {
        v.push(Msg::CatchUp(j, m2));
    }
    v
}

fn run_case(case: &Case, out: &mut WorkerOut) {
    PROC.with(|pc| {
        let mut pc = pc.borrow_mut();
        if pc.is_none() {
            *pc = Some(Proc { rt: rt(4), node: None, db_c: None, db_r: None, conf_r: None, next_partition: 0 });
        }
        let Proc { rt, node, db_c, db_r, conf_r, next_partition } = pc.as_mut().unwrap();
        let msgs = messages(case);
        let script = Script::new(&case.lens, case.stream_per_tx);
        let mut orders = permutations(&msgs);
        // identical messages (a duplicate) make some orders equal: keep one of each
        let mut seen = HashSet::new();
        orders.retain(|o| seen.insert(o.iter().map(|&i| format!("{:?}", msgs[i])).collect::<Vec<_>>()));
        if let Some((j, _)) = case.catchup {
            // a real catch-up response cannot arrive before the replica's next sequence reached T_j's
            orders.retain(|o| {
                let cpos = o.iter().position(|&i| matches!(msgs[i], Msg::CatchUp(..))).unwrap();
                (0..j).all(|k| o.iter().position(|&i| msgs[i] == Msg::T(k)).map(|tp| tp < cpos).unwrap_or(false))
            });
        }
        if let Some(only) = &case.only_order {
            orders.retain(|o| o == only);
        }
        rt.block_on(async {
            if db_c.is_none() || *next_partition as usize + 2 * orders.len() >= PARTS as usize {
                fresh_pair(node, db_c, db_r, conf_r).await;
                *next_partition = 0;
            }
            let nodep = node.as_ref().unwrap();
            let dc = &db_c.as_ref().unwrap().1;
            let dr = &db_r.as_ref().unwrap().1;
            let cr = conf_r.as_ref().unwrap();
            // timers: run the orders concurrently (each sleeps through its horizon)
            let chunk = if case.timers { 64 } else { 1 };
            for group in orders.chunks(chunk) {
                let mut futs = Vec::new();
                for order in group {
                    let p = *next_partition;
                    *next_partition += 1;
                    futs.push(async move { (p, order.clone(), run_order(nodep, dc, dr, cr, p, &Script::new(&case.lens, case.stream_per_tx), case, &messages(case), order).await) });
                }
                let mut recheck: Vec<Vec<usize>> = Vec::new();
                for (p, order, r) in futures::future::join_all(futs).await {
                    out.transitions += order.len() as u64;
                    out.evals += 1;
                    match r {
                        Err(e) => vcommon::machinery_fail(&format!("C12 harness: {e}")),
                        Ok(res) => {
                            if case.timers {
                                // verdicts that rest on wall-clock timers are only reported if a second execution, run
                                // alone, shows them again
                                let mut tmp = WorkerOut { collected: Some(vec![]), ..Default::default() };
                                judge(case, &script, p, &msgs, &order, &res, &mut tmp);
                                if tmp.collected.as_ref().unwrap().iter().any(|(k, _, _)| k.ends_with("/timers") || k.contains("after-horizon")) {
                                    recheck.push(order);
                                    continue;
                                }
                            }
                            judge(case, &script, p, &msgs, &order, &res, out)
                        }
                    }
                }
                for order in recheck {
                    out.count("timer_mode_verdicts_rechecked", 1);
                    let p = *next_partition;
                    *next_partition += 1;
                    match run_order(nodep, dc, dr, cr, p, &Script::new(&case.lens, case.stream_per_tx), case, &messages(case), &order).await {
                        Err(e) => vcommon::machinery_fail(&format!("C12 harness: {e}")),
                        Ok(res) => judge(case, &script, p, &msgs, &order, &res, out),
                    }
                }
            }
        });
        out.state(vcommon::fnv(format!("{case:?}").as_bytes()));
        if out.cases_done % 40 == 0 {
            out.sample(serde_json::to_value(case).unwrap());
        }
    });
}

pub fn cases(thorough: bool) -> Vec<Case> {
    let mut v = Vec::new();
    let shapes: Vec<Vec<u8>> = if thorough {
        let mut s = Vec::new();
        for n in [3usize, 4] {
            for mask in 0..(1u32 << n) {
                s.push((0..n).map(|i| if mask & (1 << i) != 0 { 2 } else { 1 }).collect());
            }
        }
        s
    } else {
        vec![vec![1, 1, 1], vec![2, 1, 1], vec![1, 2, 1], vec![1, 1, 2]]
    };
    type Extra = (Option<usize>, Option<usize>, Option<(bool, usize)>, Option<(usize, usize)>);
    for lens in &shapes {
        let n = lens.len();
        for stream_per_tx in [false, true] {
            for buffer in [1000usize, 2] {
                let mut extras: Vec<Extra> = vec![(None, None, None, None)];
                for i in 0..n {
                    extras.push((None, Some(i), None, None));
                    extras.push((Some(i), None, None, None));
                    extras.push((None, None, Some((false, i)), None));
                    if lens[i] == 2 {
                        extras.push((None, None, Some((true, i)), None));
                    }
                    for m2 in i + 1..=n {
                        // response T_i..T_{m2-1}; with and without the "missing" write that triggered it
                        extras.push((None, None, None, Some((i, m2))));
                        if thorough || m2 == i + 1 {
                            extras.push((Some(i), None, None, Some((i, m2))));
                        }
                    }
                }
                for (missing, dup, x, catchup) in extras {
                    // quick: conflicts meet the small buffer (eviction and conflict handling interact), duplicates do not
                    if !thorough && ((stream_per_tx && (x.is_some() || dup.is_some())) || (buffer == 2 && dup.is_some())) {
                        continue;
                    }
                    if !thorough && buffer == 2 && stream_per_tx {
                        continue;
                    }
                    v.push(Case { lens: lens.clone(), missing, dup, x, catchup, stream_per_tx, timers: false, buffer, range_missing: false, only_order: None });
                }
            }
            // a foreign coordinator's transaction claims a sequence inside a range the replica never received and
            // asks the coordinator for: every order of the remaining writes, the claimant and the catch-up response
            {
                for j in 0..n {
                    for m2 in j + 1..=n.min(j + 2) {
                        for jx in j..m2 {
                            for buffer in if thorough { vec![1000usize, 2] } else { vec![1000usize] } {
                                v.push(Case { lens: lens.clone(), missing: None, dup: None, x: Some((false, jx)), catchup: Some((j, m2)), stream_per_tx, timers: false, buffer, range_missing: true, only_order: None });
                            }
                        }
                    }
                }
            }
            // timers: real catch-up from the coordinator
            for missing in std::iter::once(None).chain((0..n).map(Some)) {
                if !thorough && (missing.is_none() || stream_per_tx) {
                    continue;
                }
                if missing == Some(n - 1) {
                    continue;
                }
                v.push(Case { lens: lens.clone(), missing, dup: None, x: None, catchup: None, stream_per_tx, timers: true, buffer: 1000, range_missing: false, only_order: None });
            }
            // timers + a conflicting write inside a two-event transaction (the gap detection then sees a
            // buffered entry next to the applied range)
            for j in 0..n {
                if lens[j] == 2 && (thorough || !stream_per_tx) {
                    v.push(Case { lens: lens.clone(), missing: None, dup: None, x: Some((true, j)), catchup: None, stream_per_tx, timers: true, buffer: 1000, range_missing: false, only_order: None });
                }
            }
        }
    }
    v.sort_by_key(|c| (c.timers, c.lens.len(), serde_json::to_string(c).unwrap()));
    v.dedup();
    v
}

pub fn run(args: Args) {
    let tier = args.tier;
    let thorough = tier.is_thorough();
    let all = cases(thorough);
    if let Some(spec) = workers::worker_spec(&args.extra) {
        let order: Vec<usize> = vcommon::seeded_order(all.len(), vcommon::seed_from_env());
        workers::worker_loop(&spec, &order, |idx, out| run_case(&all[idx], out));
    }
    let mut ctx = Ctx::new("C12", tier, "model_checking");
    if let Some(path) = &args.replay {
        ctx.replay_mode = true;
        let v = vcommon::load_replay(path);
        let v = if v.get("died").is_some() { v["case"].clone() } else { v };
        let case: Case = serde_json::from_value(v).unwrap_or_else(|e| vcommon::machinery_fail(&format!("replay case: {e}")));
        let mut first = None;
        for _ in 0..2 {
            let mut out = WorkerOut { collected: Some(vec![]), ..Default::default() };
            run_case(&case, &mut out);
            let got = out.collected.take().unwrap();
            let keys: Vec<String> = got.iter().map(|g| g.0.clone()).collect();
            match &first {
                None => {
                    first = Some(keys);
                    if got.is_empty() {
                        println!("replay: the case agrees with the oracle");
                    }
                    for (k, d, c) in got {
                        ctx.violation(&k, &d, c);
                    }
                }
                Some(f) => {
                    if *f != keys {
                        vcommon::machinery_fail(&format!("non-deterministic replay: {f:?} vs {keys:?}"));
                    }
                }
            }
        }
        ctx.finish(json!({"replay": path.display().to_string()}), vec![]);
    }
    let order: Vec<usize> = vcommon::seeded_order(all.len(), vcommon::seed_from_env());
    let cap = Duration::from_secs(if thorough { 1500 } else { 50 });
    let m = workers::parent_run(&ctx, all.len(), &["C12".to_string(), tier.as_str().to_string()], cap, "C12/process-died", |pos| serde_json::to_value(&all[order[pos]]).unwrap_or_default());
    if m.capped {
        ctx.note(format!("wall cap hit: {} of {} cases executed", m.cases_done, all.len()));
    }
    let coverage = json!({
        "states": m.states.len(),
        "transitions": m.transitions,
        "traces_validated_against_impl": m.evals,
        "samples": m.samples,
        "exhaustive": !m.capped,
        "cases": all.len(),
        "cases_executed": m.cases_done,
        "arrival_orders_executed": m.evals,
        "distinct_observed_outcomes": m.outcomes.len(),
        "bounds": {
            "scripts": if thorough { "all 24 shapes of 3 and 4 transactions of 1 or 2 events" } else { "4 shapes of 3 transactions" },
            "extras": "none | one duplicate | one transaction never delivered | one conflicting transaction at the first or second sequence of a script transaction | one injected catch-up response carrying a contiguous run T_j..T_m-1 of the script (delivered only after T_0..T_j-1 arrived, with and without T_j itself also arriving)",
            "stream_layouts": "all events on one stream | one stream per transaction",
            "orders": "every arrival order of the resulting message multiset (up to 6 messages)",
            "buffer_sizes": [1000, 2],
            "modes": "no timers (arrival order alone decides; barrier = empty catch-up response) and timers (catch-up 150 ms, buffer timeout 400 ms, horizon 1.4 s, catch-up served by the real coordinator actor)",
        },
        "what_states_are": "distinct (script, extras, mode, buffer size) cases; every arrival order of each is a trace executed on the real PartitionReplicatorActor",
    });
    ctx.finish(
        coverage,
        vec![
            "messages are delivered to the real PartitionReplicatorActor's mailbox in the enumerated order; the ClusterActor's sender / staleness checks in front of it belong to C10/C11".into(),
            "mode B uses wall-clock timeouts with a horizon 3.5x the configured buffer timeout".into(),
            "hook H5 (VerifSyncResponse) injects catch-up responses and serves as the mailbox barrier".into(),
        ],
    )
}
