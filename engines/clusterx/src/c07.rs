//! C07 — cluster reads only expose the quorum-confirmed prefix of a partition.
//!
//! Every partition of a real database holds one history (transactions of one or two events, each
//! written with a confirmation count below or at the quorum).  The one real `ClusterActor` of the
//! process is pointed at that database (`ResetCluster`), so its `ConfirmationActor` derives the
//! watermarks from the on-disk counts exactly as a restart does.  Then every query of a grid is sent
//! to the actor and judged against W = length of the longest prefix whose events all carry a quorum
//! count.

use std::time::Duration;

use serde::{Deserialize, Serialize};
use serde_json::json;
use sierradb::bucket::segment::EventRecord;
use sierradb::database::ExpectedVersion;
use sierradb_cluster::read::{GetPartitionSequence, GetStreamVersion, ReadEvent, ReadPartition, ReadStream};
use vcommon::workers::{self, Merged, WorkerOut};
use vcommon::{Args, Ctx};

use crate::cx::*;

#[derive(Serialize, Deserialize, Clone, Copy, Debug, PartialEq, Eq, Hash)]
pub struct HTx {
    /// streams of the one or two events (0 = a, 1 = b)
    pub s0: u8,
    pub s1: Option<u8>,
    /// written with a quorum count?
    pub hi: bool,
}

pub type Hist = Vec<HTx>;

fn tx_types() -> Vec<HTx> {
    let mut v = Vec::new();
    for hi in [true, false] {
        v.push(HTx { s0: 0, s1: None, hi });
        v.push(HTx { s0: 1, s1: None, hi });
        v.push(HTx { s0: 0, s1: Some(0), hi });
        v.push(HTx { s0: 0, s1: Some(1), hi });
    }
    v
}

pub fn histories(max_events: usize) -> Vec<Hist> {
    fn go(cur: &mut Hist, used: usize, max: usize, types: &[HTx], out: &mut Vec<Hist>) {
        if !cur.is_empty() {
            out.push(cur.clone());
        }
        for t in types {
            let n = if t.s1.is_some() { 2 } else { 1 };
            if used + n <= max {
                cur.push(*t);
                go(cur, used + n, max, types, out);
                cur.pop();
            }
        }
    }
    let mut out = Vec::new();
    go(&mut Vec::new(), 0, max_events, &tx_types(), &mut out);
    // shortest first
    out.sort_by_key(|h| (h.iter().map(|t| if t.s1.is_some() { 2 } else { 1 }).sum::<usize>(), h.len()));
    out
}

const CHUNK: usize = 256;

#[derive(Serialize, Deserialize, Clone, Debug)]
pub struct Case {
    pub rf: u8,
    /// false: counts {q-1, q}; true: counts {0, q+1}
    pub extreme: bool,
    pub max_events: usize,
    pub chunk: usize,
    /// replay: only this history of the chunk
    #[serde(default)]
    pub only: Option<usize>,
}

fn counts(rf: u8, extreme: bool) -> (u8, u8) {
    let q = rf / 2 + 1;
    if extreme { (0, (q + 1).min(12)) } else { (q - 1, q) }
}

struct MEv {
    id: uuid::Uuid,
    seq: u64,
    stream: u8,
    version: u64,
    conf: u8,
    tx: usize,
}

fn model(p: u16, h: &Hist, rf: u8, extreme: bool) -> (Vec<MEv>, u64) {
    let (lo, hi) = counts(rf, extreme);
    let q = rf / 2 + 1;
    let mut evs = Vec::new();
    let mut vers = [0u64; 2];
    for (ti, t) in h.iter().enumerate() {
        for s in std::iter::once(t.s0).chain(t.s1) {
            let seq = evs.len() as u64;
            evs.push(MEv { id: eid(p, seq + 1), seq, stream: s, version: vers[s as usize], conf: if t.hi { hi } else { lo }, tx: ti });
            vers[s as usize] += 1;
        }
    }
    let w = evs.iter().take_while(|e| e.conf >= q).count() as u64;
    (evs, w)
}

fn stream_name(p: u16, s: u8) -> String {
    format!("p{p}{}", if s == 0 { 'a' } else { 'b' })
}

struct State {
    rt: tokio::runtime::Runtime,
    node: Option<Node>,
}

thread_local! {
    static STATE: std::cell::RefCell<Option<State>> = const { std::cell::RefCell::new(None) };
}

pub const PARTITIONS: u16 = 512;

fn run_case(case: &Case, out: &mut WorkerOut) {
    STATE.with(|st| {
        let mut st = st.borrow_mut();
        if st.is_none() {
            *st = Some(State { rt: rt(4), node: None });
        }
        let st = st.as_mut().unwrap();
        let all = histories(case.max_events);
        let lo = case.chunk * CHUNK;
        let hi = ((case.chunk + 1) * CHUNK).min(all.len());
        let chunk: Vec<(usize, &Hist)> = (lo..hi).map(|i| (i, &all[i])).filter(|(i, _)| case.only.map(|o| o == *i).unwrap_or(true)).collect();
        let dir = scratch("c07");
        let db = open_db(&dir);
        let rf = case.rf;
        let q = rf / 2 + 1;
        let node_ref: &mut Option<Node> = &mut st.node;
        let case_json = |i: usize| json!({"rf": rf, "extreme": case.extreme, "max_events": case.max_events, "chunk": case.chunk, "only": i});
        st.rt.block_on(async {
            // write the histories, one per partition
            for (slot, (_, h)) in chunk.iter().enumerate() {
                let p = slot as u16;
                let (evs, _) = model(p, h, rf, case.extreme);
                let mut at = 0usize;
                for (ti, t) in h.iter().enumerate() {
                    let n = if t.s1.is_some() { 2 } else { 1 };
                    let specs: Vec<EvSpec> = evs[at..at + n]
                        .iter()
                        .map(|e| EvSpec { id: e.id, stream: stream_name(p, e.stream), exp: ExpectedVersion::from_next_version(e.version), name: "E".into(), timestamp: 1_700_000_000_000_000_000 + e.seq, payload: vec![e.seq as u8] })
                        .collect();
                    let tx = make_tx(p, txid(p, ti as u64, n == 1), &specs, ExpectedVersion::from_next_version(at as u64), evs[at].conf);
                    if let Err(e) = db.append_events(tx).await {
                        vcommon::machinery_fail(&format!("setup append failed: {e}"));
                    }
                    at += n;
                }
            }
            match node_ref {
                None => *node_ref = Some(Node::start(db.clone(), rf, PARTITIONS).await),
                Some(n) => {
                    if n.rf != rf {
                        vcommon::machinery_fail("a worker process can only serve one replication factor");
                    }
                    n.reset(db.clone()).await
                }
            }
            let node = node_ref.as_ref().unwrap();
            let c = &node.cluster;
            for (slot, (hi_idx, h)) in chunk.iter().enumerate() {
                let p = slot as u16;
                let (evs, w) = model(p, h, rf, case.extreme);
                let n = evs.len() as u64;
                let hist_desc = || format!("history {:?} (counts per event {:?}, quorum {q}, W = {w})", h, evs.iter().map(|e| e.conf).collect::<Vec<_>>());
                out.state(vcommon::fnv(format!("{rf}{}{:?}", case.extreme, h).as_bytes()));
                let straddle = |seq: u64| -> &'static str {
                    // is the leaked event part of a transaction that starts below W?
                    let e = &evs[seq as usize];
                    let first_of_tx = evs.iter().find(|x| x.tx == e.tx).unwrap().seq;
                    if seq == w { if first_of_tx < w { "at-watermark-in-straddling-tx" } else { "at-watermark" } } else { "beyond-watermark" }
                };
                let mut leak = |out: &mut WorkerOut, api: &str, rec: &EventRecord, q_desc: String| {
                    out.violation(
                        &format!("C07/{api}/leak/{}", straddle(rec.partition_sequence)),
                        &format!("{q_desc} returned the event at partition sequence {} (confirmation count {}), the confirmed watermark is {w}; {}", rec.partition_sequence, rec.confirmation_count, hist_desc()),
                        case_json(*hi_idx),
                    );
                };
                // --- event lookups
                for e in &evs {
                    out.transitions += 1;
                    match tokio::time::timeout(Duration::from_secs(20), c.ask(ReadEvent::new(e.id))).await {
                        Err(_) => out.violation("C07/read-event/no-reply", &format!("ReadEvent for sequence {} never answered; {}", e.seq, hist_desc()), case_json(*hi_idx)),
                        Ok(Err(err)) => out.violation("C07/read-event/error", &format!("ReadEvent for sequence {} failed: {err}; {}", e.seq, hist_desc()), case_json(*hi_idx)),
                        Ok(Ok(Some(rec))) => {
                            if rec.event_id != e.id {
                                out.violation("C07/read-event/wrong-event", &format!("ReadEvent returned another event; {}", hist_desc()), case_json(*hi_idx));
                            } else if e.seq >= w {
                                leak(out, "read-event", &rec, format!("ReadEvent(sequence {})", e.seq));
                            }
                        }
                        Ok(Ok(None)) => {
                            if e.seq < w {
                                out.violation("C07/read-event/confirmed-event-hidden", &format!("ReadEvent for sequence {} (below the watermark {w}) returned nothing; {}", e.seq, hist_desc()), case_json(*hi_idx));
                            }
                        }
                    }
                }
                // --- partition scans
                let ends: Vec<Option<u64>> = std::iter::once(None).chain((0..=n + 1).map(Some)).collect();
                for start in 0..=n + 1 {
                    for end in &ends {
                        for count in [1u64, 2, 100] {
                            out.transitions += 1;
                            let qd = format!("ReadPartition(start {start}, end {end:?}, count {count})");
                            match tokio::time::timeout(Duration::from_secs(20), c.ask(ReadPartition { partition_id: p, start_sequence: start, end_sequence: *end, count })).await {
                                Err(_) => out.violation("C07/read-partition/no-reply", &format!("{qd} never answered; {}", hist_desc()), case_json(*hi_idx)),
                                Ok(Err(err)) => out.violation("C07/read-partition/error", &format!("{qd} failed: {err}; {}", hist_desc()), case_json(*hi_idx)),
                                Ok(Ok(res)) => {
                                    let mut leaked = false;
                                    for r in &res.events {
                                        if r.partition_sequence >= w {
                                            leak(out, "read-partition", r, qd.clone());
                                            leaked = true;
                                            break;
                                        }
                                    }
                                    out.outcome(format!("rp:{}:{}", res.events.len(), res.has_more));
                                    if !leaked {
                                        // what lies in range below the watermark must be delivered exactly
                                        let last = end.unwrap_or(u64::MAX);
                                        let want: Vec<u64> = (start..w).filter(|s| *s <= last).take(count as usize).collect();
                                        let got: Vec<u64> = res.events.iter().map(|r| r.partition_sequence).collect();
                                        if got != want {
                                            out.violation(
                                                "C07/read-partition/confirmed-range-wrong",
                                                &format!("{qd} returned sequences {got:?}, the confirmed events in range are {want:?}; {}", hist_desc()),
                                                case_json(*hi_idx),
                                            );
                                        }
                                    }
                                }
                            }
                        }
                    }
                }
                // --- stream scans and versions
                for s in 0..2u8 {
                    let sev: Vec<&MEv> = evs.iter().filter(|e| e.stream == s).collect();
                    let len = sev.len() as u64;
                    let sname = stream_name(p, s);
                    let sends: Vec<Option<u64>> = std::iter::once(None).chain((0..=len + 1).map(Some)).collect();
                    for start in 0..=len + 1 {
                        for end in &sends {
                            for count in [1u64, 2, 100] {
                                out.transitions += 1;
                                let qd = format!("ReadStream({}, start {start}, end {end:?}, count {count})", if s == 0 { "a" } else { "b" });
                                match tokio::time::timeout(Duration::from_secs(20), c.ask(ReadStream { partition_id: p, stream_id: sid(&sname), start_version: start, end_version: *end, count })).await {
                                    Err(_) => out.violation("C07/read-stream/no-reply", &format!("{qd} never answered; {}", hist_desc()), case_json(*hi_idx)),
                                    Ok(Err(err)) => out.violation("C07/read-stream/error", &format!("{qd} failed: {err}; {}", hist_desc()), case_json(*hi_idx)),
                                    Ok(Ok(res)) => {
                                        let mut leaked = false;
                                        for r in &res.events {
                                            if r.partition_sequence >= w {
                                                leak(out, "read-stream", r, qd.clone());
                                                leaked = true;
                                                break;
                                            }
                                        }
                                        out.outcome(format!("rs:{}:{}", res.events.len(), res.has_more));
                                        if !leaked {
                                            let last = end.unwrap_or(u64::MAX);
                                            let want: Vec<u64> = sev.iter().filter(|e| e.seq < w && e.version >= start && e.version <= last).map(|e| e.version).take(count as usize).collect();
                                            let got: Vec<u64> = res.events.iter().map(|r| r.stream_version).collect();
                                            if got != want {
                                                out.violation(
                                                    "C07/read-stream/confirmed-range-wrong",
                                                    &format!("{qd} returned versions {got:?}, the confirmed events in range are {want:?}; {}", hist_desc()),
                                                    case_json(*hi_idx),
                                                );
                                            }
                                        }
                                    }
                                }
                            }
                        }
                    }
                    out.transitions += 1;
                    let want_v = sev.iter().filter(|e| e.seq < w).map(|e| e.version).max();
                    match tokio::time::timeout(Duration::from_secs(20), c.ask(GetStreamVersion { partition_id: p, stream_id: sid(&sname) })).await {
                        Err(_) => out.violation("C07/stream-version/no-reply", &format!("GetStreamVersion never answered; {}", hist_desc()), case_json(*hi_idx)),
                        Ok(Err(err)) => out.violation("C07/stream-version/error", &format!("GetStreamVersion failed: {err}; {}", hist_desc()), case_json(*hi_idx)),
                        Ok(Ok(got)) => {
                            if got > want_v {
                                out.violation(
                                    "C07/stream-version/leak",
                                    &format!("GetStreamVersion({}) returned {got:?}; the newest event of the stream below the watermark {w} has version {want_v:?}; {}", if s == 0 { "a" } else { "b" }, hist_desc()),
                                    case_json(*hi_idx),
                                );
                            }
                        }
                    }
                }
                out.transitions += 1;
                match tokio::time::timeout(Duration::from_secs(20), c.ask(GetPartitionSequence { partition_id: p })).await {
                    Err(_) => out.violation("C07/partition-sequence/no-reply", &format!("GetPartitionSequence never answered; {}", hist_desc()), case_json(*hi_idx)),
                    Ok(Err(err)) => out.violation("C07/partition-sequence/error", &format!("GetPartitionSequence failed: {err}; {}", hist_desc()), case_json(*hi_idx)),
                    Ok(Ok(got)) => {
                        let want = w.checked_sub(1);
                        if got > want {
                            out.violation("C07/partition-sequence/leak", &format!("GetPartitionSequence returned {got:?}, the watermark is {w}; {}", hist_desc()), case_json(*hi_idx));
                        } else if got != want {
                            out.violation("C07/partition-sequence/behind-watermark", &format!("GetPartitionSequence returned {got:?}, the watermark is {w}; {}", hist_desc()), case_json(*hi_idx));
                        }
                    }
                }
                out.evals += 1;
                if (hi_idx + case.chunk) % 97 == 0 {
                    out.sample(json!({"rf": rf, "history": h, "counts": evs.iter().map(|e| e.conf).collect::<Vec<_>>(), "watermark": w}));
                }
            }
            let _ = tokio::time::timeout(Duration::from_secs(10), db.shutdown()).await;
        });
        drop(db);
        let _ = std::fs::remove_dir_all(&dir);
    });
}

fn max_events_for(rf: u8, thorough: bool) -> usize {
    if thorough { 5 } else if rf == 3 { 4 } else { 3 }
}

fn cases_for(rf: u8, thorough: bool) -> Vec<Case> {
    let max_events = max_events_for(rf, thorough);
    let n = histories(max_events).len();
    let chunks = n.div_ceil(CHUNK);
    let mut v = Vec::new();
    for extreme in if thorough { vec![false, true] } else { vec![false] } {
        for chunk in 0..chunks {
            v.push(Case { rf, extreme, max_events, chunk, only: None });
        }
    }
    v
}

pub fn run(args: Args) {
    let tier = args.tier;
    let thorough = tier.is_thorough();
    let rf_arg: Option<u8> = args.extra.iter().position(|a| a == "--rf").and_then(|i| args.extra.get(i + 1)).and_then(|s| s.parse().ok());
    if let Some(spec) = workers::worker_spec(&args.extra) {
        let rf = rf_arg.unwrap_or_else(|| vcommon::machinery_fail("worker needs --rf"));
        let cases = cases_for(rf, thorough);
        let order: Vec<usize> = (0..cases.len()).collect();
        workers::worker_loop(&spec, &order, |idx, out| run_case(&cases[idx], out));
    }
    let mut ctx = Ctx::new("C07", tier, "model_checking");
    if let Some(path) = &args.replay {
        ctx.replay_mode = true;
        let v = vcommon::load_replay(path);
        let v = if v.get("died").is_some() { v["case"].clone() } else { v };
        let case: Case = serde_json::from_value(v).unwrap_or_else(|e| vcommon::machinery_fail(&format!("replay case: {e}")));
        let mut out = WorkerOut { collected: Some(vec![]), ..Default::default() };
        run_case(&case, &mut out);
        let got = out.collected.take().unwrap();
        if got.is_empty() {
            println!("replay: the case agrees with the oracle");
        }
        for (k, d, c) in got {
            ctx.violation(&k, &d, c);
        }
        ctx.finish(json!({"replay": path.display().to_string()}), vec![]);
    }
    let rfs: Vec<u8> = if thorough { vec![1, 2, 3, 5] } else { vec![3, 1] };
    let total_cap = Duration::from_secs(if thorough { 1500 } else { 50 });
    let mut merged = Merged::default();
    let mut per_rf = Vec::new();
    for (i, &rf) in rfs.iter().enumerate() {
        let cases = cases_for(rf, thorough);
        let left = total_cap.saturating_sub(ctx.elapsed());
        let cap = left / (rfs.len() - i) as u32;
        let wargs = vec!["C07".to_string(), tier.as_str().to_string(), "--rf".to_string(), rf.to_string()];
        let m = workers::parent_run(&ctx, cases.len(), &wargs, cap, "C07/process-died", |pos| serde_json::to_value(&cases[pos]).unwrap_or_default());
        per_rf.push(json!({"rf": rf, "quorum": rf / 2 + 1, "histories_checked": m.evals, "queries": m.transitions, "database_instances": m.cases_done, "capped": m.capped}));
        merged.evals += m.evals;
        merged.transitions += m.transitions;
        merged.cases_done += m.cases_done;
        merged.states.extend(m.states);
        merged.outcomes.extend(m.outcomes);
        merged.samples.extend(m.samples);
        merged.capped |= m.capped;
        merged.worker_deaths += m.worker_deaths;
    }
    let max_events = if thorough { 5 } else { 4 };
    let _ = max_events_for;
    let coverage = json!({
        "states": merged.states.len(),
        "transitions": merged.transitions,
        "traces_validated_against_impl": merged.evals,
        "samples": merged.samples.iter().take(8).collect::<Vec<_>>(),
        "exhaustive": !merged.capped,
        "per_replication_factor": per_rf,
        "distinct_observed_outcomes": merged.outcomes.len(),
        "bounds": {
            "history_alphabet": "transactions: one event on stream a | one on b | two on a | one on a + one on b; each written with a count just below or at the quorum (thorough also: 0 and quorum+1)",
            "max_events_per_history": if thorough { "5" } else { "4 for rf 3, 3 for rf 1" },
            "histories_per_replication_factor": histories(max_events).len() * if thorough { 2 } else { 1 },
            "queries_per_history": "ReadEvent for every event; ReadPartition start 0..=n+1 x end {None, 0..=n+1} x count {1,2,100}; ReadStream likewise per stream; GetStreamVersion per stream; GetPartitionSequence",
        },
        "what_states_are": "distinct (replication factor, count variant, history) triples; every one was written to a real database and queried through the real ClusterActor",
    });
    ctx.finish(
        coverage,
        vec![
            "single real ClusterActor (node_count 1, no network); watermarks are derived by the real ConfirmationActor from the on-disk counts at ResetCluster, as at a restart".into(),
            "queries enter at the ClusterActor messages the RESP handlers call; the RESP encoding itself is C22's subject".into(),
            "besides the one-sided property (nothing at or beyond the watermark is revealed) the check also requires that the confirmed part of a range is returned, so that an empty answer does not pass".into(),
        ],
    )
}
