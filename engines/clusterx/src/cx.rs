//! Shared harness of the clusterx engine: deterministic identifiers, a real `Database`, the one real
//! `ClusterActor` a process can hold (kameo's remote swarm is a process global), `ResetCluster` onto
//! fresh databases, and small helpers.

use std::collections::HashSet;
use std::path::{Path, PathBuf};
use std::time::Duration;

use kameo::actor::{ActorRef, Spawn};
use libp2p::identity::Keypair;
use sierradb::StreamId;
use sierradb::bucket::segment::EventRecord;
use sierradb::database::{Database, DatabaseBuilder, ExpectedVersion, NewEvent, Transaction};
use sierradb::id::{set_uuid_flag, uuid_to_partition_hash};
use sierradb_cluster::{ClusterActor, ClusterArgs, ResetCluster};
use smallvec::SmallVec;
use uuid::Uuid;

pub const BUCKETS: u16 = 2;

/// Partition key of partition `p` (embedded hash == p, so `hash % partition_count == p`).
pub fn pkey(p: u16) -> Uuid {
    let v: u128 = (0xAAAA_0000_0000u128 << 80) | (0x7u128 << 64) | (0x2u128 << 62) | ((p as u128) << 46) | 0x1234;
    Uuid::from_u128(v)
}

/// Deterministic event id number `n` of partition `p`.
pub fn eid(p: u16, n: u64) -> Uuid {
    let v: u128 = (((0x0100_0000_0000u64 + n) as u128) << 80) | (0x7u128 << 64) | (0x2u128 << 62) | ((p as u128) << 46) | (n as u128 & ((1 << 46) - 1));
    let id = Uuid::from_u128(v);
    debug_assert_eq!(uuid_to_partition_hash(id), p);
    id
}

pub fn txid(p: u16, n: u64, single: bool) -> Uuid {
    set_uuid_flag(Uuid::from_u128(0x7E57_0000_0000_4000_8000_0000_0000_0000u128 | ((p as u128) << 40) | (n as u128 + 1)), single)
}

pub fn sid(s: &str) -> StreamId {
    StreamId::new(s).expect("stream id")
}

pub fn scratch(tag: &str) -> PathBuf {
    static N: std::sync::atomic::AtomicU64 = std::sync::atomic::AtomicU64::new(0);
    let n = N.fetch_add(1, std::sync::atomic::Ordering::Relaxed);
    let d = vcommon::workers::scratch_base().join(format!("verif-cx-{}-{tag}-{n}", std::process::id()));
    let _ = std::fs::remove_dir_all(&d);
    std::fs::create_dir_all(&d).unwrap_or_else(|e| vcommon::machinery_fail(&format!("mkdir {}: {e}", d.display())));
    d
}

pub fn open_db(dir: &Path) -> Database {
    open_db_with(dir, BUCKETS)
}

pub fn open_db_with(dir: &Path, buckets: u16) -> Database {
    let mut b = DatabaseBuilder::new();
    b.segment_size_bytes(2 * 1024 * 1024)
        .total_buckets(buckets)
        .bucket_ids_from_range(0..buckets)
        .reader_threads(2)
        .writer_threads(2)
        .cache_capacity_bytes(8 * 1024 * 1024)
        .sync_interval(Duration::MAX)
        .sync_idle_interval(Duration::MAX)
        .max_batch_size(usize::MAX)
        .min_sync_bytes(0);
    b.open(dir).unwrap_or_else(|e| vcommon::machinery_fail(&format!("open database: {e}")))
}

/// One event of a transaction spec.
#[derive(Clone, Debug)]
pub struct EvSpec {
    pub id: Uuid,
    pub stream: String,
    pub exp: ExpectedVersion,
    pub name: String,
    pub timestamp: u64,
    pub payload: Vec<u8>,
}

pub fn make_tx(p: u16, tx: Uuid, events: &[EvSpec], exp_seq: ExpectedVersion, conf: u8) -> Transaction {
    let evs: SmallVec<[NewEvent; 4]> = events
        .iter()
        .map(|e| NewEvent { event_id: e.id, stream_id: sid(&e.stream), stream_version: e.exp, event_name: e.name.clone(), timestamp: e.timestamp, metadata: vec![], payload: e.payload.clone() })
        .collect();
    Transaction::new(pkey(p), p, evs)
        .unwrap_or_else(|e| vcommon::machinery_fail(&format!("Transaction::new: {e}")))
        .with_transaction_id(tx)
        .expected_partition_sequence(exp_seq)
        .with_confirmation_count(conf)
}

pub struct Node {
    pub cluster: ActorRef<ClusterActor>,
    pub rf: u8,
    pub partitions: u16,
}

impl Node {
    /// Starts the process's one ClusterActor on `db` (single node, no listen address, no mDNS).
    pub async fn start(db: Database, rf: u8, partitions: u16) -> Node {
        let cluster = ClusterActor::spawn(ClusterArgs {
            keypair: Keypair::generate_ed25519(),
            database: db,
            listen_addrs: vec![],
            node_count: 1,
            node_index: 0,
            bucket_count: BUCKETS,
            partition_count: partitions,
            replication_factor: rf,
            assigned_partitions: HashSet::from_iter(0..partitions),
            heartbeat_timeout: Duration::from_secs(3600),
            heartbeat_interval: Duration::from_secs(3600),
            replication_buffer_size: 1_000,
            replication_buffer_timeout: Duration::from_millis(8_000),
            replication_catchup_timeout: Duration::from_millis(1_000),
            mdns: false,
        });
        cluster.wait_for_startup().await;
        Node { cluster, rf, partitions }
    }

    /// Points the node at a fresh database (fresh confirmation actor, replicators, subscription manager).
    pub async fn reset(&self, db: Database) {
        match self.cluster.ask(ResetCluster { database: db }).await {
            Ok(()) => {}
            Err(e) => vcommon::machinery_fail(&format!("ResetCluster failed: {e}")),
        }
    }
}

pub fn rt(workers: usize) -> tokio::runtime::Runtime {
    tokio::runtime::Builder::new_multi_thread().worker_threads(workers).enable_all().build().unwrap_or_else(|e| vcommon::machinery_fail(&format!("tokio runtime: {e}")))
}

pub fn brief(e: &EventRecord) -> String {
    format!("seq{}:{}v{}c{}", e.partition_sequence, e.stream_id, e.stream_version, e.confirmation_count)
}
