//! C08 — the confirmed watermark is sound, monotone and survives restarts.
//!
//! Part A: explicit-state breadth-first search whose transition function is the real
//! `PartitionConfirmationState::update_confirmation`.  A state is a real value of that type (deep
//! copied: the shared `Arc<AtomicWatermark>` is rebuilt) plus the ghost map "best count reported so far
//! per version".  A transition reports one transaction (its versions back to back, as the
//! `UpdateConfirmation*` handlers do) with one count.  The search runs to a fixpoint where it can, so
//! the invariants then hold for update sequences of any length over the alphabet.
//!
//! Part A2: the same deliveries through the real `ConfirmationActor` messages (all orders of three
//! transactions, each delivered once or twice, both message kinds).
//!
//! Part B: every crash point of `persist_bucket_state` (hook H4), for every short update path, with
//! and without an older persisted generation, followed by a real re-initialisation from the database.

use std::collections::{BTreeMap, HashMap, HashSet, VecDeque};
use std::sync::Arc;
use std::time::Duration;

use kameo::actor::Spawn;
use serde_json::{Value, json};
use sierradb::database::{Database, ExpectedVersion};
use sierradb_cluster::confirmation::actor::{ConfirmationActor, UpdateConfirmation, UpdateConfirmationWithBroadcast};
use sierradb_cluster::confirmation::{AtomicWatermark, BucketConfirmationManager, PartitionConfirmationState};
use smallvec::SmallVec;
use vcommon::{Args, Ctx, Samples};

use crate::cx::*;

const TXS: [&[u64]; 4] = [&[1], &[2, 3], &[4], &[5]];
const NV: usize = 5;

fn quorum(rf: u8) -> u8 {
    rf / 2 + 1
}

fn counts_for(rf: u8) -> Vec<u8> {
    let q = quorum(rf);
    let mut v = vec![0, 1, q.saturating_sub(1), q, rf];
    v.sort();
    v.dedup();
    v
}

fn deep(s: &PartitionConfirmationState) -> PartitionConfirmationState {
    PartitionConfirmationState {
        partition_id: s.partition_id,
        highest_version: s.highest_version,
        confirmed_watermark: Arc::new(AtomicWatermark::new(s.confirmed_watermark.get())),
        unconfirmed_events: s.unconfirmed_events.clone(),
    }
}

/// Longest prefix 1..=k whose best reported count reaches the quorum.
fn prefix(best: &[Option<u8>; NV], q: u8) -> u64 {
    let mut k = 0;
    for b in best {
        match b {
            Some(c) if *c >= q => k += 1,
            _ => break,
        }
    }
    k
}

#[derive(Clone)]
struct Node_ {
    real: PartitionConfirmationState,
    best: [Option<u8>; NV],
    latest: [Option<u8>; NV],
    path: Vec<(usize, u8)>,
}

/// Canonical key.  Dropped fields, with the argument why merged states have the same futures:
/// `first_seen` / `last_attempt` / `attempts` of an unconfirmed entry and `highest_version` are written
/// by `update_confirmation` but never read by it (their only readers are `get_stuck_events` and
/// `confirmation_gap`, which are not transitions), so they cannot influence any later transition or
/// any invariant checked here.  `latest` is a ghost used only to label a finding.
fn key(n: &Node_) -> (u64, Vec<(u64, u8)>, [Option<u8>; NV]) {
    (n.real.confirmed_watermark.get(), n.real.unconfirmed_events.iter().map(|(v, e)| (*v, e.confirmation_count)).collect(), n.best)
}

struct PartA {
    states: u64,
    transitions: u64,
    fixpoint: bool,
    depth_done: usize,
    distinct_watermarks: usize,
}

/// A report may be repeated any number of times: 300 duplicates of a below-quorum count for one version, then the
/// quorum count - the watermark must reach the version (and nothing may panic on the way).
fn many_duplicates(ctx: &Ctx, rf: u8) {
    let q = quorum(rf);
    let r = vcommon::catch(|| {
        let mut st = PartitionConfirmationState::new(7);
        for _ in 0..300 {
            st.update_confirmation(1, q.saturating_sub(1), rf);
        }
        st.update_confirmation(1, q, rf);
        st.confirmed_watermark.get()
    });
    match r {
        Ok(1) => {}
        Ok(w) => ctx.violation("C08/many-duplicates/final-watermark-wrong", &format!("300 duplicates of count {} for version 1, then count {q}: watermark {w}", q.saturating_sub(1)), json!({"part": "A", "rf": rf, "duplicates": 300})),
        Err(p) => ctx.violation("C08/many-duplicates/panic", &format!("300 duplicates of count {} for version 1: update_confirmation panicked: {p}", q.saturating_sub(1)), json!({"part": "A", "rf": rf, "duplicates": 300})),
    }
}

fn part_a(ctx: &Ctx, rf: u8, max_depth: usize, samples: &Samples) -> PartA {
    many_duplicates(ctx, rf);
    let q = quorum(rf);
    let counts = counts_for(rf);
    let init = Node_ { real: PartitionConfirmationState::new(7), best: [None; NV], latest: [None; NV], path: vec![] };
    let mut seen: HashSet<(u64, Vec<(u64, u8)>, [Option<u8>; NV])> = HashSet::new();
    seen.insert(key(&init));
    let mut frontier: VecDeque<Node_> = VecDeque::from([init]);
    let mut transitions = 0u64;
    let mut wms: HashSet<u64> = HashSet::new();
    let mut depth_done = 0;
    let mut fixpoint = false;
    for depth in 1..=max_depth {
        let mut next: VecDeque<Node_> = VecDeque::new();
        while let Some(n) = frontier.pop_front() {
            for (ti, tx) in TXS.iter().enumerate() {
                for &c in &counts {
                    let mut m = Node_ { real: deep(&n.real), best: n.best, latest: n.latest, path: n.path.clone() };
                    m.path.push((ti, c));
                    let w0 = m.real.confirmed_watermark.get();
                    let mut any_adv = false;
                    let mut panicked = None;
                    for &v in *tx {
                        let before = m.real.confirmed_watermark.get();
                        match vcommon::catch(|| m.real.update_confirmation(v, c, rf)) {
                            Ok(adv) => {
                                let after = m.real.confirmed_watermark.get();
                                if adv != (after > before) {
                                    ctx.violation(
                                        "C08/update-return-value-disagrees-with-watermark",
                                        &format!("update_confirmation({v}, {c}, rf {rf}) returned {adv} while the watermark went {before} -> {after}"),
                                        json!({"part": "A", "rf": rf, "path": m.path}),
                                    );
                                }
                                any_adv |= adv;
                            }
                            Err(p) => {
                                panicked = Some(p);
                                break;
                            }
                        }
                        let i = (v - 1) as usize;
                        m.best[i] = Some(m.best[i].map(|b| b.max(c)).unwrap_or(c));
                        m.latest[i] = Some(c);
                    }
                    transitions += 1;
                    if let Some(p) = panicked {
                        ctx.violation("C08/panic", &format!("update_confirmation panicked: {p}"), json!({"part": "A", "rf": rf, "path": m.path}));
                        continue;
                    }
                    let _ = any_adv;
                    let w1 = m.real.confirmed_watermark.get();
                    wms.insert(w1);
                    let p = prefix(&m.best, q);
                    if w1 < w0 {
                        ctx.violation("C08/watermark-decreased", &format!("watermark went from {w0} to {w1}"), json!({"part": "A", "rf": rf, "path": m.path}));
                    }
                    if w1 > p {
                        ctx.violation(
                            "C08/watermark-exceeds-reported-quorum-prefix",
                            &format!("watermark {w1} but the longest prefix whose best reported count reaches the quorum {q} is {p} (best counts {:?})", m.best),
                            json!({"part": "A", "rf": rf, "path": m.path}),
                        );
                    }
                    if w1 < p {
                        // every version up to p has been reported with a quorum count, yet the watermark is behind
                        let stale = (0..p as usize).any(|i| m.latest[i] < m.best[i]);
                        let k = if stale { "C08/watermark-behind-reported-quorum/stale-lower-count-after-higher" } else { "C08/watermark-behind-reported-quorum/no-stale-count" };
                        ctx.violation(
                            k,
                            &format!(
                                "after reports {:?} (transaction index, count; transactions are versions {{1}},{{2,3}},{{4}},{{5}}) with rf {rf} the watermark is {w1}, but versions 1..={p} have all been reported with a quorum count",
                                m.path
                            ),
                            json!({"part": "A", "rf": rf, "path": m.path}),
                        );
                    }
                    if seen.insert(key(&m)) {
                        if seen.len() % 5000 == 1 {
                            samples.push(json!({"part": "A", "rf": rf, "path": m.path, "watermark": w1}));
                        }
                        next.push_back(m);
                    }
                }
            }
        }
        depth_done = depth;
        if next.is_empty() {
            fixpoint = true;
            break;
        }
        frontier = next;
    }
    PartA { states: seen.len() as u64, transitions, fixpoint, depth_done, distinct_watermarks: wms.len() }
}

// ---------------------------------------------------------------------------------------------

struct Written {
    /// per transaction: (tx id, offsets, versions)
    txs: Vec<(uuid::Uuid, SmallVec<[u64; 4]>, Vec<u64>)>,
}

async fn write_unconfirmed(db: &Database, p: u16, txs: &[&[u64]]) -> Written {
    let mut out = Vec::new();
    let mut n = 0u64;
    for tx in txs {
        let evs: Vec<EvSpec> = tx
            .iter()
            .map(|v| {
                n += 1;
                EvSpec { id: eid(p, n), stream: format!("s{p}"), exp: ExpectedVersion::Any, name: "E".into(), timestamp: 1_700_000_000_000_000_000 + v, payload: vec![*v as u8] }
            })
            .collect();
        let id = txid(p, tx[0], tx.len() == 1);
        let r = db.append_events(make_tx(p, id, &evs, ExpectedVersion::from_next_version(tx[0] - 1), 0)).await.unwrap_or_else(|e| vcommon::machinery_fail(&format!("setup append: {e}")));
        out.push((id, r.offsets.clone(), tx.to_vec()));
    }
    Written { txs: out }
}

fn perms(n: usize) -> Vec<Vec<usize>> {
    fn go(cur: &mut Vec<usize>, n: usize, out: &mut Vec<Vec<usize>>) {
        if cur.len() == n {
            out.push(cur.clone());
            return;
        }
        for i in 0..n {
            if !cur.contains(&i) {
                cur.push(i);
                go(cur, n, out);
                cur.pop();
            }
        }
    }
    let mut out = Vec::new();
    go(&mut Vec::new(), n, &mut out);
    out
}

/// Part A2: all orders of three transactions, each delivered once or twice, through the real actor.
async fn part_a2(ctx: &Ctx, db: &Database, rf: u8, next_partition: &mut u16, samples: &Samples) -> u64 {
    let q = quorum(rf);
    let txs: [&[u64]; 3] = [&[1], &[2, 3], &[4]];
    let mut runs = 0;
    for perm in perms(3) {
        for dup_mask in 0..8u32 {
            for with_broadcast in [false, true] {
                for stale_first in [false, true] {
                    let p = *next_partition;
                    *next_partition += 1;
                    let _w = write_unconfirmed(db, p, &txs).await;
                    let actor = match ConfirmationActor::new(db.clone(), rf, HashSet::from([p])).await {
                        Ok(a) => a,
                        Err(e) => vcommon::machinery_fail(&format!("ConfirmationActor::new: {e}")),
                    };
                    let wm = actor.manager.get_watermark(p).cloned().unwrap_or_else(|| vcommon::machinery_fail("no watermark for the partition"));
                    let aref = ConfirmationActor::spawn(actor);
                    let mut deliveries: Vec<(usize, u8)> = Vec::new();
                    for &ti in &perm {
                        if stale_first && q > 0 {
                            deliveries.push((ti, q - 1));
                        }
                        deliveries.push((ti, q));
                        if dup_mask & (1 << ti) != 0 {
                            deliveries.push((ti, q));
                        }
                    }
                    let mut last = 0;
                    for (ti, c) in &deliveries {
                        let versions: SmallVec<[u64; 4]> = txs[*ti].iter().copied().collect();
                        let r = if with_broadcast {
                            aref.ask(UpdateConfirmationWithBroadcast { partition_id: p, versions: versions.clone(), confirmation_count: *c, partition_sequences: (versions[0] - 1, versions[versions.len() - 1] - 1) })
                                .await
                                .map(|_| ())
                                .map_err(|e| e.to_string())
                        } else {
                            aref.ask(UpdateConfirmation { partition_id: p, versions, confirmation_count: *c }).await.map(|_| ()).map_err(|e| e.to_string())
                        };
                        if let Err(e) = r {
                            ctx.violation("C08/actor/update-failed", &format!("confirmation update failed: {e}"), json!({"part": "A2", "rf": rf, "deliveries": deliveries, "with_broadcast": with_broadcast}));
                        }
                        let now = wm.get();
                        if now < last {
                            ctx.violation("C08/actor/watermark-decreased", &format!("watermark went from {last} to {now}"), json!({"part": "A2", "rf": rf, "deliveries": deliveries, "with_broadcast": with_broadcast}));
                        }
                        last = now;
                    }
                    runs += 1;
                    if wm.get() != 4 {
                        ctx.violation(
                            "C08/actor/final-watermark-wrong",
                            &format!("all of versions 1..=4 were reported with the quorum count {q} (deliveries {deliveries:?}), final watermark {}", wm.get()),
                            json!({"part": "A2", "rf": rf, "deliveries": deliveries, "with_broadcast": with_broadcast}),
                        );
                    }
                    if runs % 97 == 1 {
                        samples.push(json!({"part": "A2", "rf": rf, "deliveries": deliveries, "with_broadcast": with_broadcast, "final_watermark": wm.get()}));
                    }
                    let _ = aref.stop_gracefully().await;
                    aref.wait_for_shutdown().await;
                }
            }
        }
    }
    runs
}

fn paths(ntx: usize, counts: &[u8], max_len: usize) -> Vec<Vec<(usize, u8)>> {
    let mut out: Vec<Vec<(usize, u8)>> = vec![vec![]];
    let mut all = Vec::new();
    for _ in 0..max_len {
        let mut next = Vec::new();
        for p in &out {
            for t in 0..ntx {
                for &c in counts {
                    let mut q = p.clone();
                    q.push((t, c));
                    next.push(q);
                }
            }
        }
        all.extend(next.iter().cloned());
        out = next;
    }
    all
}

/// Part B: crash points of persist_bucket_state.  Cases are processed in generations of `NB` (one bucket,
/// hence one confirmation directory, per case): phase 1 runs the update path and the faulted persist,
/// then the database is shut down and reopened (a restart loses every cache), then phase 2 re-initialises
/// a fresh manager per case from the files and the reopened database.
const NB: u16 = 16;

struct PendingB {
    p: u16,
    path: Vec<(usize, u8)>,
    crash: u32,
    older_generation: bool,
    before: u64,
    files: Vec<String>,
}

async fn part_b(ctx: &Ctx, dir: &std::path::Path, rf: u8, thorough: bool, samples: &Samples) -> (u64, u64, BTreeMap<String, u64>) {
    let q = quorum(rf);
    let txs: Vec<&[u64]> = if thorough { vec![&[1], &[2, 3], &[4]] } else { vec![&[1], &[2, 3]] };
    let mut counts = vec![q.saturating_sub(1), q];
    counts.dedup();
    let all_paths = paths(txs.len(), &counts, 3);
    let mut cases: Vec<(Vec<(usize, u8)>, u32, bool)> = Vec::new();
    for path in &all_paths {
        for crash in 0..=6u32 {
            for older in [false, true] {
                cases.push((path.clone(), crash, older));
            }
        }
    }
    let mut restarts = 0u64;
    let mut outcomes: BTreeMap<String, u64> = BTreeMap::new();
    let mut db = open_db_with(dir, NB);
    for (generation, chunk) in cases.chunks(NB as usize).enumerate() {
        let mut pending: Vec<PendingB> = Vec::new();
        for (i, (path, crash, older_generation)) in chunk.iter().enumerate() {
            let bucket = i as u16;
            let p = (generation as u16) * NB + bucket;
            let conf_dir = dir.join("buckets").join(format!("{bucket:05}")).join("confirmation");
            let _ = std::fs::remove_dir_all(&conf_dir);
            let w = write_unconfirmed(&db, p, &txs).await;
            let mut m = BucketConfirmationManager::new(dir.to_path_buf(), NB, rf, HashSet::from([p]));
            sierradb_cluster::verif::set_crash_point(0);
            if let Err(e) = m.initialize(&db).await {
                vcommon::machinery_fail(&format!("initialize: {e}"));
            }
            let mut failed = None;
            for (k, (ti, c)) in path.iter().enumerate() {
                // As the write path does: a quorum count reaches the disk (set_confirmations) before the
                // confirmation state hears of it (coordinator: transaction::spawn, replica: ConfirmTransaction).
                // A count below the quorum is only ever reported by the replicator as the count the
                // transaction was appended with; that report never rewrites the disk.
                let (id, offsets, versions) = &w.txs[*ti];
                if *c >= q {
                    if let Err(e) = db.set_confirmations(p, offsets.clone(), *id, *c).await {
                        vcommon::machinery_fail(&format!("set_confirmations: {e}"));
                    }
                }
                for v in versions {
                    if let Err(e) = m.update_confirmation(p, *v, *c).await {
                        failed = Some(format!("update_confirmation: {e}"));
                    }
                }
                if *older_generation && k == 0 {
                    // an explicit older generation on disk (the first update_confirmation persists anyway)
                    let _ = m.persist_bucket_state(bucket).await;
                }
            }
            if let Some(e) = failed {
                ctx.violation("C08/persist/update-failed-without-fault", &e, json!({"part": "B", "rf": rf, "path": path}));
                continue;
            }
            if !older_generation {
                let _ = std::fs::remove_dir_all(&conf_dir);
                let _ = std::fs::create_dir_all(&conf_dir);
            }
            let before = m.get_watermark(p).map(|w| w.get()).unwrap_or(0);
            if before == 0 {
                continue;
            }
            sierradb_cluster::verif::set_crash_point(*crash);
            let r = m.persist_bucket_state(bucket).await;
            sierradb_cluster::verif::set_crash_point(0);
            if *crash == 0 {
                if let Err(e) = &r {
                    ctx.violation("C08/persist/failed-without-fault", &format!("persist_bucket_state failed: {e}"), json!({"part": "B", "rf": rf, "path": path}));
                }
            }
            let mut files: Vec<String> = std::fs::read_dir(&conf_dir).map(|rd| rd.flatten().map(|e| e.file_name().to_string_lossy().into_owned()).collect()).unwrap_or_default();
            files.sort();
            pending.push(PendingB { p, path: path.clone(), crash: *crash, older_generation: *older_generation, before, files });
        }
        // the restart: everything in memory is lost
        let _ = tokio::time::timeout(Duration::from_secs(10), db.shutdown()).await;
        drop(db);
        db = open_db_with(dir, NB);
        for pb in pending {
            let mut m2 = BucketConfirmationManager::new(dir.to_path_buf(), NB, rf, HashSet::from([pb.p]));
            let init = m2.initialize(&db).await;
            restarts += 1;
            let case = json!({"part": "B", "rf": rf, "path": pb.path, "crash_step": pb.crash, "older_generation_on_disk": pb.older_generation});
            match init {
                Err(e) => ctx.violation(
                    &format!("C08/restart/initialize-failed/crash-step={}", pb.crash),
                    &format!("re-initialisation failed after a crash at persistence step {}: {e} (files left: {:?})", pb.crash, pb.files),
                    case,
                ),
                Ok(()) => {
                    let after = m2.get_watermark(pb.p).map(|w| w.get()).unwrap_or(0);
                    *outcomes.entry(format!("crash={} files={}", pb.crash, pb.files.join("+"))).or_insert(0) += 1;
                    if after < pb.before {
                        ctx.violation(
                            &format!("C08/restart/watermark-went-back/crash-step={}/older-generation={}", pb.crash, pb.older_generation),
                            &format!(
                                "watermark {} before the crash at persistence step {}, {after} after the restart (files left: {:?}; update path {:?})",
                                pb.before, pb.crash, pb.files, pb.path
                            ),
                            case,
                        );
                    } else if restarts % 211 == 1 {
                        samples.push(json!({"part": "B", "rf": rf, "path": pb.path, "crash_step": pb.crash, "older_generation_on_disk": pb.older_generation, "watermark_before": pb.before, "watermark_after": after, "files_left": pb.files}));
                    }
                }
            }
        }
    }
    let _ = tokio::time::timeout(Duration::from_secs(10), db.shutdown()).await;
    (restarts, all_paths.len() as u64, outcomes)
}

/// Part C: the persistence protocol on its own.  The database is empty, so nothing but the state files can
/// bring a watermark back after a restart.  A step = advance the watermark by 0 or 1 confirmed versions, then
/// `persist_bucket_state` with a crash at step c (0 = none); after a crash the manager is dropped and a new
/// one is initialised from the files.  Every sequence of steps up to `depth`.  Oracle: after every restart
/// the watermark is at least the watermark at the last persist that returned success (what was made durable
/// is never lost, whatever sequence of crashes follows).
async fn part_c(ctx: &Ctx, dir: &std::path::Path, rf: u8, depth: usize, samples: &Samples) -> (u64, u64, u64) {
    let q = quorum(rf);
    let db = open_db_with(dir, NB);
    let p: u16 = 3;
    let bucket = p % NB;
    let conf_dir = dir.join("buckets").join(format!("{bucket:05}")).join("confirmation");
    let alphabet: Vec<(u8, u32)> = (0..=1u8).flat_map(|k| (0..=6u32).map(move |c| (k, c))).collect();
    let (mut sequences, mut restarts, mut transitions) = (0u64, 0u64, 0u64);
    let mut disk_states: HashSet<String> = HashSet::new();
    // depth-first over sequences; a sequence is executed from scratch (live managers do not copy)
    let mut stack: Vec<Vec<(u8, u32)>> = alphabet.iter().map(|a| vec![*a]).collect();
    while let Some(seq) = stack.pop() {
        sequences += 1;
        let _ = std::fs::remove_dir_all(&conf_dir);
        sierradb_cluster::verif::set_crash_point(0);
        let mut m = BucketConfirmationManager::new(dir.to_path_buf(), NB, rf, HashSet::from([p]));
        if let Err(e) = m.initialize(&db).await {
            vcommon::machinery_fail(&format!("initialize: {e}"));
        }
        let mut durable = 0u64;
        let mut ok = true;
        for (i, (k, c)) in seq.iter().enumerate() {
            transitions += 1;
            for _ in 0..*k {
                let next = m.get_watermark(p).map(|w| w.get()).unwrap_or(0) + 1;
                if let Err(e) = m.update_confirmation(p, next, q).await {
                    ctx.violation("C08/persist/update-failed-without-fault", &format!("update_confirmation: {e}"), json!({"part": "C", "rf": rf, "steps": seq[..=i]}));
                    ok = false;
                }
            }
            let w = m.get_watermark(p).map(|w| w.get()).unwrap_or(0);
            sierradb_cluster::verif::set_crash_point(*c);
            let r = m.persist_bucket_state(bucket).await;
            sierradb_cluster::verif::set_crash_point(0);
            if r.is_ok() {
                durable = w;
                continue;
            }
            // the crash: memory is lost, the directory stays as it is
            let mut files: Vec<String> = std::fs::read_dir(&conf_dir).map(|rd| rd.flatten().map(|e| e.file_name().to_string_lossy().into_owned()).collect()).unwrap_or_default();
            files.sort();
            disk_states.insert(files.join("+"));
            drop(m);
            m = BucketConfirmationManager::new(dir.to_path_buf(), NB, rf, HashSet::from([p]));
            restarts += 1;
            if let Err(e) = m.initialize(&db).await {
                ctx.violation(&format!("C08/restart/initialize-failed/crash-step={c}"), &format!("re-initialisation failed after a crash at persistence step {c}: {e} (files left: {files:?})"), json!({"part": "C", "rf": rf, "steps": seq[..=i]}));
                ok = false;
                break;
            }
            let after = m.get_watermark(p).map(|w| w.get()).unwrap_or(0);
            if after < durable {
                let crashes: Vec<String> = seq[..=i].iter().filter(|(_, c)| *c != 0).map(|(_, c)| c.to_string()).collect();
                ctx.violation(
                    &format!("C08/restart/persisted-watermark-lost/crash-steps={}", crashes.join(",")),
                    &format!("watermark {durable} had been persisted successfully; after the crash sequence (advance, crash step) {:?} and a restart it is {after} (files left: {files:?}; the database holds no events, only the state files can restore it)", &seq[..=i]),
                    json!({"part": "C", "rf": rf, "steps": seq[..=i]}),
                );
                ok = false;
                break;
            }
        }
        if ok && sequences % 997 == 1 {
            samples.push(json!({"part": "C", "rf": rf, "steps": seq, "persisted_watermark_at_end": durable}));
        }
        if ok && seq.len() < depth {
            for a in &alphabet {
                let mut n = seq.clone();
                n.push(*a);
                stack.push(n);
            }
        }
    }
    let _ = tokio::time::timeout(Duration::from_secs(10), db.shutdown()).await;
    let _ = disk_states;
    (sequences, restarts, transitions)
}

/// Part B re-opens a database once per generation of 16 cases and every open leaves file descriptors behind (the
/// reader pool and its caches keep each other alive), so each replication factor's share runs in its own process:
/// `clusterx C08 <tier> --part-b <rf>` prints one JSON line with its counts and the violations it found.
fn part_b_child(args: &Args, rf: u8) -> ! {
    let thorough = args.tier.is_thorough();
    let mut ctx = Ctx::new("C08", args.tier, "model_checking");
    ctx.collect_only = true; // the parent reports
    let samples = Samples::new(4);
    let rt = rt(4);
    let bdir = scratch("c08b");
    let (restarts, paths_used, outcomes) = rt.block_on(part_b(&ctx, &bdir, rf, thorough, &samples));
    let _ = std::fs::remove_dir_all(&bdir);
    let line = json!({"t": "part-b", "rf": rf, "restarts": restarts, "paths": paths_used, "outcomes": outcomes, "violations": ctx.collected_violations(), "samples": samples.take()});
    println!("PARTB {line}");
    vcommon::workers::remove_own_scratch();
    std::process::exit(0)
}

fn part_b_in_child(ctx: &Ctx, tier: vcommon::Tier, rf: u8, samples: &Samples) -> (u64, u64, BTreeMap<String, u64>) {
    let exe = std::env::current_exe().unwrap_or_else(|e| vcommon::machinery_fail(&format!("current_exe: {e}")));
    let out = std::process::Command::new(exe).args(["C08", tier.as_str(), "--part-b", &rf.to_string()]).stderr(std::process::Stdio::inherit()).output().unwrap_or_else(|e| vcommon::machinery_fail(&format!("cannot start the part B process: {e}")));
    let text = String::from_utf8_lossy(&out.stdout);
    let Some(line) = text.lines().find_map(|l| l.strip_prefix("PARTB ")) else { vcommon::machinery_fail(&format!("the part B process for rf {rf} ended without a result ({:?})", out.status)) };
    let v: Value = serde_json::from_str(line).unwrap_or_else(|e| vcommon::machinery_fail(&format!("part B result does not parse: {e}")));
    for viol in v["violations"].as_array().into_iter().flatten() {
        ctx.violation(viol[0].as_str().unwrap_or("C08/part-b"), viol[1].as_str().unwrap_or(""), viol[2].clone());
    }
    for smp in v["samples"].as_array().into_iter().flatten() {
        samples.push(smp.clone());
    }
    let outcomes: BTreeMap<String, u64> = v["outcomes"].as_object().map(|o| o.iter().map(|(k, n)| (k.clone(), n.as_u64().unwrap_or(0))).collect()).unwrap_or_default();
    (v["restarts"].as_u64().unwrap_or(0), v["paths"].as_u64().unwrap_or(0), outcomes)
}

pub fn run(args: Args) {
    let tier = args.tier;
    let thorough = tier.is_thorough();
    if let Some(i) = args.extra.iter().position(|a| a == "--part-b") {
        let rf: u8 = args.extra.get(i + 1).and_then(|s| s.parse().ok()).unwrap_or_else(|| vcommon::machinery_fail("--part-b needs a replication factor"));
        part_b_child(&args, rf);
    }
    let mut ctx = Ctx::new("C08", tier, "model_checking");
    let samples = Samples::new(12);
    if let Some(path) = &args.replay {
        ctx.replay_mode = true;
        let case = vcommon::load_replay(path);
        replay(&ctx, &case);
        ctx.finish(json!({"replay": path.display().to_string()}), vec![]);
    }
    let rfs: Vec<u8> = if thorough { vec![1, 2, 3, 5] } else { vec![1, 3] };
    let mut a_rows = Vec::new();
    let (mut states, mut transitions) = (0u64, 0u64);
    let mut all_fix = true;
    for &rf in &rfs {
        let a = part_a(&ctx, rf, if thorough { 14 } else { 8 }, &samples);
        states += a.states;
        transitions += a.transitions;
        all_fix &= a.fixpoint;
        a_rows.push(json!({"rf": rf, "states": a.states, "transitions": a.transitions, "fixpoint_reached": a.fixpoint, "depth_completed": a.depth_done, "distinct_watermarks": a.distinct_watermarks, "counts": counts_for(rf)}));
    }
    // parts A2 and B on a real database
    let dir = scratch("c08");
    let rt = rt(4);
    let db = open_db(&dir);
    let mut next_partition: u16 = 0;
    let mut a2_runs = 0u64;
    let mut b_rows = Vec::new();
    let mut restarts_total = 0u64;
    let mut c_row = json!(null);
    rt.block_on(async {
        for &rf in &rfs {
            a2_runs += part_a2(&ctx, &db, rf, &mut next_partition, &samples).await;
        }
        for &rf in &rfs {
            let (restarts, paths_used, outcomes) = part_b_in_child(&ctx, tier, rf, &samples);
            restarts_total += restarts;
            b_rows.push(json!({"rf": rf, "update_paths": paths_used, "restarts": restarts, "distinct_disk_states_after_crash": outcomes.len(), "disk_states": outcomes}));
        }
        {
            let cdir = scratch("c08c");
            let rf = 3;
            let (sequences, restarts, tr) = part_c(&ctx, &cdir, rf, if thorough { 4 } else { 3 }, &samples).await;
            let _ = std::fs::remove_dir_all(&cdir);
            restarts_total += restarts;
            c_row = json!({"rf": rf, "depth": if thorough { 4 } else { 3 }, "step_alphabet": "(advance 0|1, crash step 0..6)", "sequences_executed": sequences, "restarts": restarts, "steps": tr});
        }
        let _ = tokio::time::timeout(Duration::from_secs(10), db.shutdown()).await;
    });
    drop(db);
    let _ = std::fs::remove_dir_all(&dir);
    let coverage = json!({
        "states": states,
        "transitions": transitions + a2_runs + restarts_total,
        "traces_validated_against_impl": a2_runs + restarts_total,
        "samples": samples.take(),
        "exhaustive": all_fix,
        "part_a_explicit_state_search": a_rows,
        "part_a2_actor_delivery_orders": a2_runs,
        "part_b_crash_points": b_rows,
        "part_c_crash_sequences_state_files_only": c_row,
        "bounds": {
            "transactions": "versions {1}, {2,3}, {4}, {5} (part A); {1}, {2,3}, {4} (A2); {1}, {2,3} quick / + {4} thorough (B)",
            "counts": "0, 1, quorum-1, quorum, rf",
            "replication_factors": rfs,
            "crash_steps": "0 = no fault, 1 after create(temp), 2 after write, 3 after sync, 4 after remove(previous), 5 after rename(current->previous), 6 after rename(temp->current)",
        },
        "what_states_are": "part A: distinct (watermark, unconfirmed (version,count) map, best reported count per version) triples of the real PartitionConfirmationState; the search ran to a fixpoint where exhaustive=true",
    });
    ctx.finish(
        coverage,
        vec![
            "the transition function of part A is the real update_confirmation; fields it never reads are dropped from the state key (argument in c08.rs)".into(),
            "part C runs the manager on an empty database (as the crate's own persistence test does): the oracle there is 'a successfully persisted watermark is never lost', a consequence of the property that does not rely on the database's counts masking a lost state file".into(),
            "part B models a process crash: the directory is left exactly as the injected io error leaves it; torn renames and power loss are not modelled".into(),
        ],
    )
}

fn replay(ctx: &Ctx, case: &Value) {
    let rf = case["rf"].as_u64().unwrap_or(3) as u8;
    let samples = Samples::new(1);
    match case["part"].as_str() {
        Some("A") => {
            // re-run the search for that rf: deterministic, shortest path first
            let _ = part_a(ctx, rf, 14, &samples);
        }
        _ => {
            let dir = scratch("c08r");
            let rt = rt(2);
            let db = open_db(&dir);
            let mut np = 0u16;
            rt.block_on(async {
                if case["part"].as_str() == Some("A2") {
                    part_a2(ctx, &db, rf, &mut np, &samples).await;
                } else if case["part"].as_str() == Some("C") {
                    let cdir = scratch("c08rc");
                    part_c(ctx, &cdir, rf, 4, &samples).await;
                    let _ = std::fs::remove_dir_all(&cdir);
                } else {
                    let bdir = scratch("c08rb");
                    part_b(ctx, &bdir, rf, true, &samples).await;
                    let _ = std::fs::remove_dir_all(&bdir);
                }
                let _ = tokio::time::timeout(Duration::from_secs(10), db.shutdown()).await;
            });
            drop(db);
            let _ = std::fs::remove_dir_all(&dir);
        }
    }
    let _: HashMap<(), ()> = HashMap::new();
}
