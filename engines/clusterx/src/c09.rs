//! C09 — subscriptions deliver confirmed events in order, once, without gaps.
//!
//! Real `Database`, real `ConfirmationActor`, real `SubscriptionManager` wired as `ClusterActor::on_start`
//! wires them; the harness is the only source of events.  A run = an initial partition state, one
//! subscription and a sequence of environment steps; hook H3 parks the subscription task at its pause
//! points (before the first history batch, after each fetched batch, between history and live phase),
//! so "the watermark advances while a history read is between batches" is a step the harness takes, not
//! a race.  Every step sequence up to a length over the step menu is executed; every run is closed by
//! "confirm everything, release everything, acknowledge everything".

use std::collections::{BTreeMap, HashMap, HashSet};
use std::sync::Arc;
use std::time::Duration;

use kameo::actor::{ActorRef, Spawn};
use serde::{Deserialize, Serialize};
use serde_json::json;
use sierradb::database::{Database, ExpectedVersion};
use sierradb_cluster::confirmation::AtomicWatermark;
use sierradb_cluster::confirmation::actor::{ConfirmationActor, UpdateConfirmation, UpdateConfirmationWithBroadcast};
use sierradb_cluster::subscription::{FromSequences, FromVersions, SubscriptionEvent, SubscriptionManager, SubscriptionMatcher};
use sierradb_cluster::verif::Parked;
use smallvec::SmallVec;
use tokio::sync::{mpsc, watch};
use uuid::Uuid;
use vcommon::workers::{self, WorkerOut};
use vcommon::{Args, Ctx};

use crate::cx::*;

const RF: u8 = 3;
const Q: u8 = 2;

#[derive(Serialize, Deserialize, Clone, Copy, Debug, PartialEq, Eq, Hash)]
pub enum Kind {
    Partition,
    Partitions,
    AllPartitions,
    Stream,
    Streams,
}

#[derive(Serialize, Deserialize, Clone, Copy, Debug, PartialEq, Eq, Hash)]
pub enum Step {
    /// release the parked subscription task (no-op when it is not parked)
    Release,
    /// append one event on (p0, a) and confirm it the way the coordinator does
    AppendConfirmed,
    /// confirm the oldest unconfirmed transaction (coordinator way: set_confirmations + UpdateConfirmationWithBroadcast)
    ConfirmOldest,
    /// the same the way a replica learns it (set_confirmations + UpdateConfirmation)
    ConfirmOldestReplicaWay,
    /// append one unconfirmed event on (p0, a)
    AppendUnconfirmed,
    /// append one unconfirmed two-event transaction (a, b) on p0
    AppendUnconfirmedPair,
    /// acknowledge everything received so far
    Ack,
    /// append one event on (p0, b) - the second stream of a multi-stream subscription - and confirm it
    AppendConfirmedB,
    /// append + confirm one event on the second partition
    AppendConfirmedOther,
    /// confirm every unconfirmed transaction, oldest first
    ConfirmAll,
}

#[derive(Serialize, Deserialize, Clone, Debug, PartialEq, Eq, Hash)]
pub struct Case {
    pub kind: Kind,
    /// confirmed single-event transactions on (p0, a) before the subscription
    pub pre: usize,
    /// unconfirmed single events behind them
    pub tail_unconfirmed: usize,
    /// None = latest
    pub from: Option<u64>,
    pub window: u64,
    pub steps: Vec<Step>,
    /// the events that exist before the subscription were confirmed without being broadcast (the way a replica
    /// learns of a confirmation, or what a restart leaves behind): the first broadcast after the subscription
    /// starts replays them
    #[serde(default)]
    pub pre_unbroadcast: bool,
}

struct Tx {
    id: Uuid,
    offsets: SmallVec<[u64; 4]>,
    partition: u16,
    first_seq: u64,
    n: u64,
    confirmed: bool,
}

#[derive(Clone, Debug)]
struct Ev {
    partition: u16,
    seq: u64,
    stream: String,
    version: u64,
}

struct Env {
    db: Database,
    conf: ActorRef<ConfirmationActor>,
    p0: u16,
    p1: u16,
    txs: Vec<Tx>,
    events: Vec<Ev>,
    next_seq: HashMap<u16, u64>,
    next_ver: HashMap<String, u64>,
    counter: u64,
}

impl Env {
    fn stream(&self, s: char) -> String {
        format!("c{}{s}", self.p0)
    }
    async fn append(&mut self, partition: u16, streams: &[char]) -> usize {
        let first = *self.next_seq.entry(partition).or_insert(0);
        let mut specs = Vec::new();
        for (k, s) in streams.iter().enumerate() {
            let name = self.stream(*s);
            let v = *self.next_ver.entry(name.clone()).or_insert(0);
            self.next_ver.insert(name.clone(), v + 1);
            self.counter += 1;
            specs.push(EvSpec { id: eid(partition, self.counter), stream: name.clone(), exp: ExpectedVersion::from_next_version(v), name: "E".into(), timestamp: 1_700_000_000_000_000_000 + self.counter, payload: vec![1] });
            self.events.push(Ev { partition, seq: first + k as u64, stream: name, version: v });
        }
        self.counter += 1;
        let id = txid(partition, self.counter, streams.len() == 1);
        // streams a, b live under the partition key of p0; the other partition has its own stream c
        let tx = make_tx(partition, id, &specs, ExpectedVersion::from_next_version(first), 0);
        let r = self.db.append_events(tx).await.unwrap_or_else(|e| vcommon::machinery_fail(&format!("C09 setup append: {e}")));
        self.next_seq.insert(partition, first + streams.len() as u64);
        self.txs.push(Tx { id, offsets: r.offsets.clone(), partition, first_seq: first, n: streams.len() as u64, confirmed: false });
        self.txs.len() - 1
    }
    async fn confirm(&mut self, i: usize, replica_way: bool) {
        let (id, offsets, partition, first, n) = {
            let t = &self.txs[i];
            (t.id, t.offsets.clone(), t.partition, t.first_seq, t.n)
        };
        if let Err(e) = self.db.set_confirmations(partition, offsets, id, Q).await {
            vcommon::machinery_fail(&format!("C09 set_confirmations: {e}"));
        }
        let versions: SmallVec<[u64; 4]> = (first..first + n).map(|s| s + 1).collect();
        let r = if replica_way {
            self.conf.ask(UpdateConfirmation { partition_id: partition, versions, confirmation_count: Q }).await.map(|_| ()).map_err(|e| e.to_string())
        } else {
            self.conf.ask(UpdateConfirmationWithBroadcast { partition_id: partition, versions, confirmation_count: Q, partition_sequences: (first, first + n - 1) }).await.map(|_| ()).map_err(|e| e.to_string())
        };
        if let Err(e) = r {
            vcommon::machinery_fail(&format!("C09 confirmation update failed: {e}"));
        }
        self.txs[i].confirmed = true;
    }
    fn oldest_unconfirmed(&self) -> Option<usize> {
        self.txs.iter().position(|t| !t.confirmed)
    }
}

struct Proc {
    rt: tokio::runtime::Runtime,
    db: Option<(std::path::PathBuf, Database)>,
    conf: Option<ActorRef<ConfirmationActor>>,
    watermarks: Option<Arc<HashMap<u16, Arc<AtomicWatermark>>>>,
    broadcaster: Option<tokio::sync::broadcast::Sender<sierradb::bucket::segment::EventRecord>>,
    park_rx: Option<mpsc::UnboundedReceiver<Parked>>,
    next_partition: u16,
}

thread_local! {
    static PROC: std::cell::RefCell<Option<Proc>> = const { std::cell::RefCell::new(None) };
}

const PARTS: u16 = 4096;

#[derive(Debug)]
struct Got {
    cursor: u64,
    partition: u16,
    seq: u64,
    stream: String,
    version: u64,
    watermark_at_receipt: u64,
    outstanding: u64,
}

async fn run_one(pc: &mut Proc, case: &Case, out: &mut WorkerOut) {
    // fresh database generation when partitions run out
    if pc.db.is_none() || pc.next_partition >= PARTS - 4 {
        if let Some(c) = pc.conf.take() {
            let _ = c.stop_gracefully().await;
            c.wait_for_shutdown().await;
        }
        if let Some((dir, db)) = pc.db.take() {
            let _ = tokio::time::timeout(Duration::from_secs(10), db.shutdown()).await;
            drop(db);
            let _ = std::fs::remove_dir_all(&dir);
        }
        let dir = scratch("c09");
        let db = open_db(&dir);
        let actor = ConfirmationActor::new(db.clone(), RF, HashSet::from_iter(0..PARTS)).await.unwrap_or_else(|e| vcommon::machinery_fail(&format!("ConfirmationActor::new: {e}")));
        pc.watermarks = Some(Arc::new(actor.manager.get_watermarks()));
        pc.broadcaster = Some(actor.broadcaster());
        pc.conf = Some(ConfirmationActor::spawn(actor));
        pc.db = Some((dir, db));
        pc.next_partition = 0;
    }
    if pc.park_rx.is_none() {
        pc.park_rx = Some(sierradb_cluster::verif::install_pause_controller());
    }
    let p0 = pc.next_partition;
    let p1 = pc.next_partition + 1;
    pc.next_partition += 2;
    let db = pc.db.as_ref().unwrap().1.clone();
    let watermarks = pc.watermarks.as_ref().unwrap().clone();
    let mut env = Env { db: db.clone(), conf: pc.conf.as_ref().unwrap().clone(), p0, p1, txs: vec![], events: vec![], next_seq: HashMap::new(), next_ver: HashMap::new(), counter: 0 };
    let case_json = serde_json::to_value(case).unwrap();
    let desc = format!("{case:?}");
    // initial state
    for _ in 0..case.pre {
        env.append(p0, &['a']).await;
    }
    if case.pre > 0 {
        // one update for all of them (the watermark only needs the counts)
        for i in 0..case.pre {
            let (id, offsets) = (env.txs[i].id, env.txs[i].offsets.clone());
            if let Err(e) = db.set_confirmations(p0, offsets, id, Q).await {
                vcommon::machinery_fail(&format!("C09 set_confirmations: {e}"));
            }
            env.txs[i].confirmed = true;
        }
        let versions: SmallVec<[u64; 4]> = (1..=case.pre as u64).collect();
        let r = if case.pre_unbroadcast {
            env.conf.ask(UpdateConfirmation { partition_id: p0, versions, confirmation_count: Q }).await.map(|_| ()).map_err(|e| e.to_string())
        } else {
            env.conf.ask(UpdateConfirmationWithBroadcast { partition_id: p0, versions, confirmation_count: Q, partition_sequences: (0, case.pre as u64 - 1) }).await.map(|_| ()).map_err(|e| e.to_string())
        };
        if let Err(e) = r {
            vcommon::machinery_fail(&format!("C09 initial confirmation: {e}"));
        }
    }
    for _ in 0..case.tail_unconfirmed {
        env.append(p0, &['a']).await;
    }
    let wm = |p: u16| watermarks.get(&p).map(|w| w.get()).unwrap_or(0);
    let w0_at_subscribe = wm(p0);
    let w1_at_subscribe = wm(p1);
    // subscribe
    let pk0 = pkey(p0);
    let sa = env.stream('a');
    let sb = env.stream('b');
    let matcher = match case.kind {
        Kind::Partition => SubscriptionMatcher::Partition { partition_id: p0, from_sequence: case.from },
        Kind::Partitions => SubscriptionMatcher::Partitions { partition_ids: HashSet::from([p0, p1]), from_sequences: case.from.map(FromSequences::AllPartitions).unwrap_or(FromSequences::Latest) },
        Kind::AllPartitions => SubscriptionMatcher::AllPartitions { from_sequences: case.from.map(FromSequences::AllPartitions).unwrap_or(FromSequences::Latest) },
        Kind::Stream => SubscriptionMatcher::Stream { partition_key: pk0, stream_id: sid(&sa), from_version: case.from },
        Kind::Streams => SubscriptionMatcher::Streams { stream_ids: HashSet::from([(pk0, sid(&sa)), (pk0, sid(&sb))]), from_versions: case.from.map(FromVersions::AllStreams).unwrap_or(FromVersions::Latest) },
    };
    let mut mgr = SubscriptionManager::new(db.clone(), Arc::new(HashSet::from([p0, p1])), watermarks.clone(), PARTS, pc.broadcaster.as_ref().unwrap().clone());
    let sub_id = Uuid::new_v4();
    let (ack_tx, ack_rx) = watch::channel(None);
    let (upd_tx, mut upd_rx) = mpsc::unbounded_channel();
    mgr.subscribe(sub_id, matcher, ack_rx, upd_tx, case.window);
    let park_rx = pc.park_rx.as_mut().unwrap();
    let mut parked: Option<Parked> = None;
    let mut got: Vec<Got> = Vec::new();
    let mut acked: Option<u64> = None;
    let mut sub_error: Option<String> = None;
    let mut labels: Vec<&'static str> = Vec::new();

    // drains channels until the subscription is parked or nothing happened for `grace`
    macro_rules! settle {
        ($grace:expr) => {{
            let mut quiet = tokio::time::Instant::now();
            loop {
                let mut progressed = false;
                while let Ok(p) = park_rx.try_recv() {
                    if p.id == sub_id.as_u128() {
                        labels.push(p.label);
                        parked = Some(p);
                    } else {
                        let _ = p.release.send(());
                    }
                    progressed = true;
                }
                while let Ok(ev) = upd_rx.try_recv() {
                    progressed = true;
                    match ev {
                        SubscriptionEvent::Record { cursor, record, .. } => {
                            let outstanding = match acked {
                                Some(a) => cursor.saturating_sub(a),
                                None => cursor + 1,
                            };
                            got.push(Got { cursor, partition: record.partition_id, seq: record.partition_sequence, stream: record.stream_id.to_string(), version: record.stream_version, watermark_at_receipt: wm(record.partition_id), outstanding });
                        }
                        SubscriptionEvent::Error { error, .. } => sub_error = Some(error.to_string()),
                        SubscriptionEvent::Closed { .. } => sub_error = Some("subscription closed".into()),
                    }
                }
                if parked.is_some() {
                    break;
                }
                if progressed {
                    quiet = tokio::time::Instant::now();
                }
                if quiet.elapsed() >= $grace {
                    break;
                }
                tokio::time::sleep(Duration::from_millis(1)).await;
            }
        }};
    }
    settle!(Duration::from_millis(10));
    for st in &case.steps {
        out.transitions += 1;
        match st {
            Step::Release => {
                if let Some(p) = parked.take() {
                    let _ = p.release.send(());
                }
            }
            Step::AppendConfirmed => {
                let i = env.append(p0, &['a']).await;
                // a transaction can only be confirmed after its predecessors in this model of one coordinator
                while let Some(j) = env.oldest_unconfirmed() {
                    env.confirm(j, false).await;
                    if j == i {
                        break;
                    }
                }
            }
            Step::ConfirmOldest => {
                if let Some(j) = env.oldest_unconfirmed() {
                    env.confirm(j, false).await;
                }
            }
            Step::ConfirmOldestReplicaWay => {
                if let Some(j) = env.oldest_unconfirmed() {
                    env.confirm(j, true).await;
                }
            }
            Step::AppendUnconfirmed => {
                env.append(p0, &['a']).await;
            }
            Step::AppendUnconfirmedPair => {
                env.append(p0, &['a', 'b']).await;
            }
            Step::Ack => {
                if let Some(last) = got.last() {
                    acked = Some(last.cursor);
                    let _ = ack_tx.send(acked);
                }
            }
            Step::AppendConfirmedB => {
                let i = env.append(p0, &['b']).await;
                while let Some(j) = env.oldest_unconfirmed() {
                    env.confirm(j, false).await;
                    if j == i {
                        break;
                    }
                }
            }
            Step::AppendConfirmedOther => {
                let i = env.append(p1, &['c']).await;
                env.confirm(i, false).await;
            }
            Step::ConfirmAll => {
                while let Some(j) = env.oldest_unconfirmed() {
                    env.confirm(j, false).await;
                }
            }
        }
        settle!(Duration::from_millis(10));
    }
    // close the run: confirm everything, release everything, acknowledge everything
    while let Some(j) = env.oldest_unconfirmed() {
        env.confirm(j, false).await;
    }
    let expected_total = |env: &Env, case: &Case| -> Vec<(u16, u64, String, u64)> {
        // every matching event at or after the start position (everything is confirmed now)
        env.events
            .iter()
            .filter(|e| match case.kind {
                Kind::Partition => e.partition == p0 && e.seq >= case.from.unwrap_or(w0_at_subscribe),
                Kind::Partitions | Kind::AllPartitions => (e.partition == p0 && e.seq >= case.from.unwrap_or(w0_at_subscribe)) || (e.partition == p1 && e.seq >= case.from.unwrap_or(w1_at_subscribe)),
                Kind::Stream => e.stream == sa && (case.from.map(|f| e.version >= f).unwrap_or(e.seq >= w0_at_subscribe)),
                Kind::Streams => (e.stream == sa || e.stream == sb) && (case.from.map(|f| e.version >= f).unwrap_or(e.seq >= w0_at_subscribe)),
            })
            .map(|e| (e.partition, e.seq, e.stream.clone(), e.version))
            .collect()
    };
    let want = expected_total(&env, case);
    let mut idle_since = tokio::time::Instant::now();
    let mut last_len = got.len();
    loop {
        if let Some(p) = parked.take() {
            let _ = p.release.send(());
        }
        if let Some(last) = got.last() {
            if acked != Some(last.cursor) {
                acked = Some(last.cursor);
                let _ = ack_tx.send(acked);
            }
        }
        settle!(Duration::from_millis(8));
        if got.len() != last_len {
            last_len = got.len();
            idle_since = tokio::time::Instant::now();
        }
        if sub_error.is_some() || (got.len() >= want.len() && idle_since.elapsed() > Duration::from_millis(30)) || idle_since.elapsed() > Duration::from_secs(3) {
            break;
        }
    }
    drop(ack_tx);
    drop(mgr);
    // ------------------------------------------------------------------ oracle
    let kind = format!("{:?}", case.kind);
    let start = if case.from.is_some() { "from-position" } else { "latest" };
    let show = |g: &[Got]| g.iter().map(|x| format!("p{}#{}:{}v{}", if x.partition == p0 { 0 } else { 1 }, x.seq, x.stream.chars().last().unwrap_or('?'), x.version)).collect::<Vec<_>>();
    let mut fail = |out: &mut WorkerOut, key: String, what: String| out.violation(&format!("C09/{key}"), &format!("{what}; delivered {:?}; pause points seen {labels:?}; {desc}", show(&got)), case_json.clone());
    if let Some(e) = &sub_error {
        fail(out, format!("subscription-ended/{kind}"), format!("the subscription ended: {e}"));
        return;
    }
    // cursors
    for (i, g) in got.iter().enumerate() {
        if g.cursor != i as u64 {
            fail(out, format!("cursor-not-consecutive/{kind}"), format!("record {i} carries cursor {}", g.cursor));
            return;
        }
        if g.seq >= g.watermark_at_receipt {
            fail(out, format!("unconfirmed-event-delivered/{kind}"), format!("record at partition sequence {} was delivered while the watermark was {}", g.seq, g.watermark_at_receipt));
            return;
        }
        if g.outstanding > case.window {
            fail(out, format!("window-exceeded/{kind}"), format!("record with cursor {} arrived with {} unacknowledged records outstanding, window {}", g.cursor, g.outstanding, case.window));
            return;
        }
    }
    // order / duplicates / gaps per partition or per stream
    let by_stream = matches!(case.kind, Kind::Stream | Kind::Streams);
    let mut per: BTreeMap<String, Vec<u64>> = BTreeMap::new();
    for g in &got {
        if by_stream {
            per.entry(g.stream.clone()).or_default().push(g.version);
        } else {
            per.entry(format!("p{}", g.partition)).or_default().push(g.seq);
        }
    }
    for (k, v) in &per {
        for w in v.windows(2) {
            if w[1] == w[0] {
                fail(out, format!("duplicate/{kind}/{start}"), format!("{k}: position {} was delivered twice", w[0]));
                return;
            }
            if w[1] < w[0] {
                fail(out, format!("out-of-order/{kind}/{start}"), format!("{k}: position {} was delivered after {}", w[1], w[0]));
                return;
            }
            if w[1] != w[0] + 1 {
                fail(out, format!("gap/{kind}/{start}"), format!("{k}: position {} was followed by {}", w[0], w[1]));
                return;
            }
        }
    }
    // start position and completeness
    let mut want_per: BTreeMap<String, Vec<u64>> = BTreeMap::new();
    for (p, seq, s, ver) in &want {
        if by_stream {
            want_per.entry(s.clone()).or_default().push(*ver);
        } else {
            want_per.entry(format!("p{p}")).or_default().push(*seq);
        }
    }
    for (k, v) in &per {
        let first_wanted = want_per.get(k).and_then(|w| w.first().copied());
        match first_wanted {
            Some(fw) if v[0] < fw => {
                fail(out, format!("delivered-before-start-position/{kind}/{start}"), format!("{k}: position {} was delivered, the subscription starts at {fw}", v[0]));
                return;
            }
            None => {
                fail(out, format!("delivered-before-start-position/{kind}/{start}"), format!("{k}: position {} was delivered although nothing at or after the start position exists there", v[0]));
                return;
            }
            _ => {}
        }
    }
    for (k, w) in &want_per {
        let have = per.get(k).cloned().unwrap_or_default();
        if have != *w {
            let why = if labels.is_empty() { "no-pause" } else { "with-pauses" };
            let replica = if case.steps.contains(&Step::ConfirmOldestReplicaWay) { "/replica-way-confirmation" } else { "" };
            fail(out, format!("not-all-delivered/{kind}/{start}/{why}{replica}"), format!("{k}: delivered positions {have:?}, every matching confirmed event from the start position is {w:?} (3 s after the last confirmation)"));
            return;
        }
    }
    out.evals += 1;
    out.state(vcommon::fnv(desc.as_bytes()));
    out.outcome(format!("{kind}:{}rec:{}pauses", got.len(), labels.len()));
}

fn step_menu(kind: Kind, thorough: bool, long_tail: bool) -> Vec<Step> {
    if long_tail {
        // the interesting moves around a history batch that lies beyond the watermark
        return vec![Step::Release, Step::ConfirmAll, Step::ConfirmOldest, Step::Ack];
    }
    let mut v = vec![Step::Release, Step::AppendConfirmed, Step::ConfirmOldest, Step::AppendUnconfirmed, Step::Ack];
    if thorough {
        v.push(Step::ConfirmAll);
        v.push(Step::AppendUnconfirmedPair);
        v.push(Step::ConfirmOldestReplicaWay);
    }
    if matches!(kind, Kind::Partitions | Kind::AllPartitions) {
        v.push(Step::AppendConfirmedOther);
    }
    v
}

fn sequences(menu: &[Step], max_len: usize) -> Vec<Vec<Step>> {
    let mut out: Vec<Vec<Step>> = vec![vec![]];
    let mut cur: Vec<Vec<Step>> = vec![vec![]];
    for _ in 0..max_len {
        let mut next = Vec::new();
        for s in &cur {
            for m in menu {
                // two consecutive Acks / an Ack right at the start do nothing new
                if *m == Step::Ack && (s.last() == Some(&Step::Ack) || s.is_empty()) {
                    continue;
                }
                // ConfirmAll twice in a row does nothing new either
                if *m == Step::ConfirmAll && s.last() == Some(&Step::ConfirmAll) {
                    continue;
                }
                let mut t = s.clone();
                t.push(*m);
                next.push(t);
            }
        }
        out.extend(next.iter().cloned());
        cur = next;
    }
    out
}

/// (confirmed events, unconfirmed events behind them, step-sequence length) per matcher class
fn configs(single: bool, thorough: bool) -> Vec<(usize, usize, usize)> {
    match (single, thorough) {
        (true, false) => vec![(2, 1, 3), (51, 1, 2), (2, 52, 4)],
        (false, false) => vec![(2, 1, 2), (2, 52, 4)],
        (true, true) => vec![(2, 0, 4), (2, 1, 5), (50, 1, 3), (51, 0, 3), (51, 1, 4), (2, 52, 6)],
        (false, true) => vec![(2, 1, 4), (51, 1, 3), (2, 52, 5)],
    }
}

pub fn cases(thorough: bool) -> Vec<Case> {
    let mut v = Vec::new();
    for kind in [Kind::Partition, Kind::Stream, Kind::Partitions, Kind::AllPartitions, Kind::Streams] {
        let single = matches!(kind, Kind::Partition | Kind::Stream);
        for (pre, tail_unconfirmed, len) in configs(single, thorough) {
            let long_tail = tail_unconfirmed > 10;
            if long_tail && !thorough && matches!(kind, Kind::Partitions | Kind::AllPartitions) {
                continue;
            }
            let menu = step_menu(kind, thorough, long_tail);
            let mut combos: Vec<(Option<u64>, u64)> = Vec::new();
            if thorough {
                for from in [None, Some(0), Some(pre as u64 - 1), Some(pre as u64 + 3)] {
                    for window in [1u64, 2, 1000] {
                        combos.push((from, window));
                    }
                }
            } else if long_tail {
                combos.extend([(Some(0), 1000), (Some(0), 1)]);
            } else {
                combos.extend([(None, 1), (Some(0), 1), (Some(pre as u64 - 1), 1), (Some(0), 1000)]);
            }
            for (from, window) in combos {
                for steps in sequences(&menu, len) {
                    v.push(Case { kind, pre, tail_unconfirmed, from, window, steps, pre_unbroadcast: false });
                }
            }
        }
    }
    // confirmations that reach the actor the way a replica's do (no broadcast), quick tier too (the thorough menus
    // contain the step anyway)
    if !thorough {
        for kind in [Kind::Partition, Kind::Stream] {
            let menu = [Step::AppendConfirmed, Step::AppendUnconfirmed, Step::ConfirmOldestReplicaWay];
            for from in [None, Some(0u64)] {
                for steps in sequences(&menu, 2) {
                    if !steps.contains(&Step::ConfirmOldestReplicaWay) {
                        continue;
                    }
                    v.push(Case { kind, pre: 2, tail_unconfirmed: 1, from, window: 1000, steps, pre_unbroadcast: false });
                }
            }
        }
    }
    // history that was confirmed but never broadcast (replica-way confirmation / restart): the first broadcast after
    // subscribing replays it; a subscription that starts at the latest position (or behind part of it) must drop it,
    // also after it has delivered something for another partition or stream
    for kind in [Kind::Partition, Kind::Stream, Kind::Partitions, Kind::AllPartitions, Kind::Streams] {
        let other = match kind {
            Kind::Partitions | Kind::AllPartitions => Some(Step::AppendConfirmedOther),
            Kind::Streams => Some(Step::AppendConfirmedB),
            _ => None,
        };
        let mut menu = vec![Step::AppendConfirmed, Step::Ack, Step::Release];
        menu.extend(other);
        for from in [None, Some(1u64)] {
            for window in if thorough { vec![1u64, 1000] } else { vec![1000u64] } {
                for steps in sequences(&menu, if thorough { 4 } else { 3 }) {
                    if steps.is_empty() {
                        continue;
                    }
                    v.push(Case { kind, pre: 3, tail_unconfirmed: 0, from, window, steps, pre_unbroadcast: true });
                }
            }
        }
    }
    v
}

pub fn run(args: Args) {
    let tier = args.tier;
    let thorough = tier.is_thorough();
    let all = cases(thorough);
    let run_case = |case: &Case, out: &mut WorkerOut| {
        PROC.with(|pc| {
            let mut pc = pc.borrow_mut();
            if pc.is_none() {
                *pc = Some(Proc { rt: rt(4), db: None, conf: None, watermarks: None, broadcaster: None, park_rx: None, next_partition: 0 });
            }
            let p = pc.as_mut().unwrap();
            // the runtime is moved out for the duration of block_on so that `p` can be borrowed mutably inside
            let rt = std::mem::replace(&mut p.rt, tokio::runtime::Builder::new_current_thread().build().unwrap());
            rt.block_on(run_one(p, case, out));
            p.rt = rt;
        });
    };
    if let Some(spec) = workers::worker_spec(&args.extra) {
        let order: Vec<usize> = vcommon::seeded_order(all.len(), vcommon::seed_from_env());
        workers::worker_loop(&spec, &order, |idx, out| run_case(&all[idx], out));
    }
    let mut ctx = Ctx::new("C09", tier, "model_checking");
    if let Some(path) = &args.replay {
        ctx.replay_mode = true;
        let v = vcommon::load_replay(path);
        let v = if v.get("died").is_some() { v["case"].clone() } else { v };
        let case: Case = serde_json::from_value(v).unwrap_or_else(|e| vcommon::machinery_fail(&format!("replay case: {e}")));
        let mut keys: Vec<Vec<String>> = Vec::new();
        for round in 0..2 {
            let mut out = WorkerOut { collected: Some(vec![]), ..Default::default() };
            run_case(&case, &mut out);
            let got = out.collected.take().unwrap();
            keys.push(got.iter().map(|g| g.0.clone()).collect());
            if round == 0 {
                if got.is_empty() {
                    println!("replay: the case agrees with the oracle");
                }
                for (k, d, c) in got {
                    ctx.violation(&k, &d, c);
                }
            }
        }
        if keys[0] != keys[1] {
            vcommon::machinery_fail(&format!("non-deterministic replay: {:?} vs {:?}", keys[0], keys[1]));
        }
        ctx.finish(json!({"replay": path.display().to_string()}), vec![]);
    }
    let order: Vec<usize> = vcommon::seeded_order(all.len(), vcommon::seed_from_env());
    let cap = Duration::from_secs(if thorough { 1700 } else { 52 });
    let m = workers::parent_run(&ctx, all.len(), &["C09".to_string(), tier.as_str().to_string()], cap, "C09/process-died", |pos| serde_json::to_value(&all[order[pos]]).unwrap_or_default());
    if m.capped {
        ctx.note(format!("wall cap hit: {} of {} runs executed", m.cases_done, all.len()));
    }
    let coverage = json!({
        "states": m.states.len(),
        "transitions": m.transitions,
        "traces_validated_against_impl": m.evals,
        "samples": all.iter().step_by((all.len() / 6).max(1)).take(6).collect::<Vec<_>>(),
        "exhaustive": !m.capped,
        "runs_enumerated": all.len(),
        "runs_executed": m.cases_done,
        "distinct_observed_outcomes": m.outcomes.len(),
        "bounds": {
            "matchers": ["Partition", "Stream", "Partitions{p0,p1}", "AllPartitions", "Streams{a,b}"],
            "configurations (confirmed events, unconfirmed events behind them, step-sequence length)": {"single partition/stream matchers": configs(true, thorough), "multi matchers": configs(false, thorough)},
            "note_on_batches": "the history batch size is 50 commits; 51 confirmed events and 52 unconfirmed events put a batch boundary inside the confirmed part / a whole batch beyond the watermark",
            "start_positions": "latest, 0, last confirmed, (thorough) beyond the end",
            "windows": if thorough { "1, 2, 1000" } else { "1, 1000" },
            "step_menu": "release the parked subscription | append+confirm | confirm oldest | confirm all | append unconfirmed | acknowledge | (thorough) append unconfirmed pair, confirm the replica way | (multi-partition) append+confirm on the other partition",
            "step_sequences": "every sequence up to the length stated per configuration",
            "seams": ["sub:partition:before-first-batch", "sub:partition:batch-fetched", "sub:partitions:batch-fetched", "sub:stream:before-first-batch", "sub:stream:batch-fetched", "sub:history-done"],
        },
        "what_states_are": "distinct runs (configuration + step sequence), each executed on the real subscription task",
    });
    ctx.finish(
        coverage,
        vec![
            "schedules are enumerated at seam granularity: the subscription task is stopped at the H3 pause points; tokio scheduling inside a step is not controlled".into(),
            "quiescence after a step is detected by a 10 ms silence; a slow machine changes which schedule a step sequence exercises, never the verdict of the oracle (order, gaps, duplicates, confirmation, window are judged on what was delivered; completeness only at the closed end with a 3 s horizon)".into(),
            "a 'latest' subscription's start position is the confirmed watermark at the time of the subscribe call".into(),
        ],
    )
}
