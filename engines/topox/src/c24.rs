//! C24 — distribute_partition returns exactly min(rf, n, 12) distinct valid partitions.
//!
//! Thorough: the complete (hash, n) square (2^32 pairs) at rf = 255, plus all rf in 0..=13 u {255}
//! on (all n) x (selected hashes) and (all hashes) x (selected n) for the prefix/determinism clauses.
//! Quick: all n x 48 hashes, all hashes x 11 n's, and the rf clauses on those.

use std::sync::atomic::{AtomicU64, Ordering};

use serde_json::json;
use sierradb_topology::distribute_partition;
use vcommon::{Args, Ctx, Samples, catch, par_for_each};

fn n_class(n: u16) -> &'static str {
    match n {
        0 => "n=0",
        1..=2 => "n<=2",
        3..=12 => "n<=12",
        13..=43690 => "n<=43690",
        _ => "n>43690",
    }
}

/// Returns None if the call satisfies the oracle, Some((kind, detail)) otherwise.
fn check_one(hash: u16, n: u16, rf: u8) -> Option<(&'static str, String)> {
    let res = match catch(|| distribute_partition(hash, n, rf)) {
        Ok(r) => r,
        Err(p) => return Some(("panic", format!("distribute_partition({hash}, {n}, {rf}) panicked: {p}"))),
    };
    let want = (rf as usize).min(n as usize).min(12);
    if res.len() != want {
        return Some(("length", format!("distribute_partition({hash}, {n}, {rf}) returned {} ids, expected {want}: {:?}", res.len(), res)));
    }
    if want == 0 {
        return None;
    }
    if res[0] != hash % n {
        return Some(("first", format!("distribute_partition({hash}, {n}, {rf})[0] = {} != hash mod n = {}", res[0], hash % n)));
    }
    for (i, &a) in res.iter().enumerate() {
        if a >= n {
            return Some(("range", format!("distribute_partition({hash}, {n}, {rf}) contains {a} >= n")));
        }
        if res[..i].contains(&a) {
            return Some(("duplicate", format!("distribute_partition({hash}, {n}, {rf}) repeats {a}: {:?}", res)));
        }
    }
    None
}

fn check_rf_clauses(hash: u16, n: u16) -> Option<(&'static str, String)> {
    let full = match catch(|| distribute_partition(hash, n, 255)) {
        Ok(r) => r,
        Err(_) => return None, // reported by check_one
    };
    for rf in (0u8..=13).chain([255u8]) {
        if let Some(v) = check_one(hash, n, rf) {
            return Some(v);
        }
        let a = catch(|| distribute_partition(hash, n, rf)).ok()?;
        let b = catch(|| distribute_partition(hash, n, rf)).ok()?;
        if a != b {
            return Some(("nondeterministic", format!("two calls of distribute_partition({hash}, {n}, {rf}) differ")));
        }
        if a.len() > full.len() || a[..] != full[..a.len()] {
            return Some(("prefix", format!("distribute_partition({hash}, {n}, {rf}) = {:?} is not a prefix of rf=255 result {:?}", a, full)));
        }
    }
    None
}

pub fn run(args: Args) {
    let mut ctx = Ctx::new("C24", args.tier, "exploration");
    if let Some(rp) = &args.replay {
        ctx.replay_mode = true;
        let c = vcommon::load_replay(rp);
        let (h, n, rf) = (c["hash"].as_u64().unwrap() as u16, c["n"].as_u64().unwrap() as u16, c["rf"].as_u64().unwrap() as u8);
        match check_one(h, n, rf).or_else(|| check_rf_clauses(h, n)) {
            Some((k, d)) => {
                println!("replay: {d}");
                ctx.violation(&format!("C24/{k}/{}", n_class(n)), &d, c.clone());
            }
            None => println!("replay: distribute_partition({h}, {n}, {rf}) = {:?} satisfies the oracle", distribute_partition(h, n, rf)),
        }
        ctx.finish(json!({"evaluations":1,"distinct_nontrivial":2,"rule":"replay","samples":[c]}), vec![]);
    }
    let thorough = args.tier.is_thorough();
    let evals = AtomicU64::new(0);
    let nontrivial = AtomicU64::new(0);
    let samples = Samples::new(6);

    let report = |h: u16, n: u16, rf: u8, k: &str, d: &str| {
        ctx.violation(&format!("C24/{k}/{}", n_class(n)), d, json!({"hash": h, "n": n, "rf": rf}));
    };

    let spread: Vec<u16> = {
        let mut v = vec![0u16, 1, 2, 3, 11, 12, 13, 255, 256, 4095, 4096, 21845, 32767, 32768, 43690, 43691, 65534, 65535];
        let mut x = 0x9E37u32;
        while v.len() < 48 {
            x = x.wrapping_mul(1103515245).wrapping_add(12345) & 0xFFFF_FFFF;
            v.push((x >> 8) as u16);
        }
        v
    };
    let special_n: Vec<u16> = vec![0, 1, 2, 3, 12, 13, 4096, 43690, 43691, 65534, 65535];

    // (a) the full square at rf = 255 (thorough) or all n x spread hashes (quick)
    let rows: Vec<u32> = (0..=65535u32).collect();
    par_for_each(&rows, |_, &n| {
        let n = n as u16;
        let mut local = 0u64;
        let mut nt = 0u64;
        let mut doit = |h: u16| {
            local += 1;
            if n >= 2 {
                nt += 1;
            }
            if let Some((k, d)) = check_one(h, n, 255) {
                report(h, n, 255, k, &d);
            }
        };
        if thorough {
            for h in 0..=65535u16 {
                doit(h);
            }
        } else {
            for &h in &spread {
                doit(h);
                doit(h.wrapping_add(n)); // hash >= n, hash == n, wraps of the modulo
            }
            doit(n.wrapping_sub(1));
            doit(n);
        }
        evals.fetch_add(local, Ordering::Relaxed);
        nontrivial.fetch_add(nt, Ordering::Relaxed);
        if n % 13107 == 5 {
            samples.push(json!({"hash": spread[5], "n": n, "rf": 255, "result": format!("{:?}", catch(|| distribute_partition(spread[5], n, 255)))}));
        }
    });

    // (b) all hashes x special n at rf = 255 (already inside the thorough square, needed for quick)
    if !thorough {
        par_for_each(&special_n, |_, &n| {
            for h in 0..=65535u16 {
                if let Some((k, d)) = check_one(h, n, 255) {
                    report(h, n, 255, k, &d);
                }
            }
            evals.fetch_add(65536, Ordering::Relaxed);
            nontrivial.fetch_add(if n >= 2 { 65536 } else { 0 }, Ordering::Relaxed);
        });
    }

    // (c) rf clauses (length for every rf, determinism, prefix): all n x spread hashes, all hashes x special n
    par_for_each(&rows, |_, &n| {
        let n = n as u16;
        let hs: &[u16] = if thorough { &spread } else { &spread[..12] };
        for &h in hs {
            if let Some((k, d)) = check_rf_clauses(h, n) {
                report(h, n, 0, k, &d);
            }
        }
        evals.fetch_add(hs.len() as u64 * 15 * 3, Ordering::Relaxed);
    });
    par_for_each(&special_n, |_, &n| {
        for h in 0..=65535u16 {
            if let Some((k, d)) = check_rf_clauses(h, n) {
                report(h, n, 0, k, &d);
            }
        }
        evals.fetch_add(65536 * 15 * 3, Ordering::Relaxed);
    });

    ctx.finish(
        json!({
            "evaluations": evals.load(Ordering::Relaxed),
            "distinct_nontrivial": nontrivial.load(Ordering::Relaxed),
            "rule": "every (hash, n) pair of the stated set is a distinct input; non-trivial = n >= 2 (a replica walk actually happens); rf clauses add 15 replication factors x (determinism, prefix) per selected pair",
            "samples": samples.take(),
            "exhaustive": true,
            "square": if thorough { "complete 2^16 x 2^16 (hash, n) square at rf=255" } else { "all n x 98 hashes + all hashes x 11 special n at rf=255" },
            "rf_values": "0..=13 and 255",
        }),
        vec!["built with overflow checks on (the repo's own test profile); a release build wraps instead of trapping".into()],
    );
}
