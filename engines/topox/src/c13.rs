//! C13 — storage placement (AppConfig::assigned_buckets / assigned_partitions, what main.rs opens)
//! agrees with cluster routing (TopologyManager) for every validated configuration.
//!
//! Exhaustive over N in 1..=Nmax, i < N, B in 1..=Bmax, P in 1..=Pmax, r in 1..=Rmax filtered by the
//! real `AppConfig::validate()`.

use std::collections::{BTreeSet, HashSet};
use std::sync::atomic::{AtomicU64, Ordering};

use serde_json::{Value, json};
use sierradb_server::config::*;
use vcommon::{Args, Ctx, Distinct, Samples, catch, par_for_each};

use crate::{Mgr, actor_ref, new_manager};

pub fn make_config(n: u32, i: u32, b: u16, p: u16, r: u8) -> AppConfig {
    AppConfig {
        append: AppendConfig { strict_versioning: true },
        bucket: BucketConfig { count: b, ids: None },
        cache: CacheConfig { capacity_bytes: 256 * 1024 * 1024 },
        dir: "/nonexistent/verif".into(),
        heartbeat: HeartbeatConfig { interval_ms: 1000, timeout_ms: 6000 },
        network: NetworkConfig {
            cluster_enabled: true,
            cluster_address: "/ip4/0.0.0.0/tcp/0".parse().unwrap(),
            client_address: "0.0.0.0:9090".into(),
            mdns: false,
        },
        node: NodeConfig { count: Some(n), index: i },
        partition: PartitionConfig { count: p, ids: None },
        replication: ReplicationConfig { buffer_size: 1000, buffer_timeout_ms: 8000, catchup_timeout_ms: 2000, factor: r },
        segment: SegmentConfig { size_bytes: 256 * 1024 * 1024, compression: true },
        sync: SyncConfig { interval_ms: 5, idle_interval_ms: None, max_batch_size: 50, min_bytes: 4096 },
        threads: Threads { read: None, write: None },
        nodes: None,
    }
}

/// All N managers, each having learned of every other node (ownership request from each peer).
pub fn connected_managers(n: usize, p: u16, b: u16, r: u8) -> Vec<Mgr> {
    let mut ms: Vec<Mgr> = (0..n).map(|i| new_manager(i, n, p, b, r, 1000 + i as u64)).collect();
    let owned: Vec<HashSet<u16>> = ms.iter().map(|m| m.assigned_partitions.clone()).collect();
    for i in 0..n {
        for j in 0..n {
            if i != j {
                ms[i].on_node_connected(actor_ref(j), &owned[j], 1000 + j as u64, j, n);
            }
        }
    }
    ms
}

/// One (N, B, P, r) tuple: checks every node index.  Returns (valid node configs, problems)
fn check_tuple(n: u32, b: u16, p: u16, r: u8) -> (u64, Vec<(String, String, Value)>) {
    let mut problems = Vec::new();
    let mut valid = 0u64;
    let mut cfgs = Vec::new();
    for i in 0..n {
        let cfg = make_config(n, i, b, p, r);
        match cfg.validate() {
            Ok(errs) if errs.is_empty() => {
                valid += 1;
                cfgs.push(cfg);
            }
            _ => {}
        }
    }
    if cfgs.len() != n as usize {
        // validation does not depend on the index beyond i < n; either all or none are valid
        return (valid, problems);
    }
    let case = json!({"N": n, "B": b, "P": p, "r": r});
    let class = format!("{}/{}", if (r as u32) < n { "r<N" } else { "r=N" }, if b as u32 > n { "B>N" } else { "B<=N" });
    let res = catch(|| {
        let mut out: Vec<(String, String)> = Vec::new();
        let ms = connected_managers(n as usize, p, b, r);
        let stores: Vec<HashSet<u16>> = cfgs.iter().map(|c| c.assigned_buckets().expect("assigned_buckets")).collect();
        for (i, cfg) in cfgs.iter().enumerate() {
            let parts = cfg.assigned_partitions(&stores[i]);
            if parts != ms[i].assigned_partitions {
                let a: BTreeSet<_> = parts.iter().copied().collect();
                let t: BTreeSet<_> = ms[i].assigned_partitions.iter().copied().collect();
                out.push((
                    format!("C13/partitions-differ/{class}"),
                    format!("node {i}: config assigns partitions {a:?}, topology claims {t:?}"),
                ));
                break;
            }
        }
        // routing: any manager's view (all are fully connected; they must agree, which C14 checks)
        let view = &ms[0];
        let mut routed_buckets: Vec<HashSet<u16>> = vec![HashSet::new(); n as usize];
        'outer: for part in 0..p {
            let bucket = part % b;
            if let Some(reps) = view.partition_replicas.get(&part) {
                for rep in reps.iter() {
                    let j = crate::peer_index(rep.peer_id().expect("remote ref"));
                    routed_buckets[j].insert(bucket);
                    if !stores[j].contains(&bucket) {
                        out.push((
                            format!("C13/routed-to-node-without-bucket/{class}"),
                            format!("partition {part} (bucket {bucket}) is routed to node {j}, which stores only buckets {:?}", stores[j].iter().collect::<BTreeSet<_>>()),
                        ));
                        break 'outer;
                    }
                }
            }
        }
        for j in 0..n as usize {
            if let Some(extra) = stores[j].iter().find(|bk| !routed_buckets[j].contains(bk)) {
                out.push((
                    format!("C13/stored-bucket-never-routed/{class}"),
                    format!("node {j} stores bucket {extra} but no partition of that bucket is routed to it"),
                ));
                break;
            }
        }
        out
    });
    match res {
        Ok(out) => {
            for (k, d) in out {
                problems.push((k, format!("{d} [N={n} B={b} P={p} r={r}]"), case.clone()));
            }
        }
        Err(pn) => problems.push((format!("C13/panic/{class}"), format!("panic: {pn} [N={n} B={b} P={p} r={r}]"), case)),
    }
    (valid, problems)
}

pub fn run(args: Args) {
    let mut ctx = Ctx::new("C13", args.tier, "exploration");
    if let Some(rp) = &args.replay {
        ctx.replay_mode = true;
        let c = vcommon::load_replay(rp);
        let (_, probs) = check_tuple(c["N"].as_u64().unwrap() as u32, c["B"].as_u64().unwrap() as u16, c["P"].as_u64().unwrap() as u16, c["r"].as_u64().unwrap() as u8);
        for (k, d, cs) in probs {
            println!("replay: {d}");
            ctx.violation(&k, &d, cs);
        }
        ctx.finish(json!({"evaluations":1,"distinct_nontrivial":2,"rule":"replay","samples":[c]}), vec![]);
    }
    let thorough = args.tier.is_thorough();
    let (nmax, bmax, pmax, rmax) = if thorough { (8u32, 12u16, 24u16, 8u8) } else { (5, 8, 12, 5) };
    let mut tuples = Vec::new();
    for n in 1..=nmax {
        for b in 1..=bmax {
            for p in 1..=pmax {
                for r in 1..=rmax {
                    tuples.push((n, b, p, r));
                }
            }
        }
    }
    // large configurations (fixed list; part of the enumeration, not sampled)
    for &(n, b, p, r) in &[(16u32, 64u16, 1024u16, 3u8), (3, 4, 32, 3), (3, 4, 32, 2), (5, 16, 64, 3), (12, 12, 24, 12), (32, 256, 1024, 5), (7, 100, 1000, 3)] {
        tuples.push((n, b, p, r));
    }
    let valid_cfgs = AtomicU64::new(0);
    let evals = AtomicU64::new(0);
    let nontrivial = AtomicU64::new(0);
    let outcomes = Distinct::new();
    let samples = Samples::new(6);
    par_for_each(&tuples, |idx, &(n, b, p, r)| {
        let (valid, probs) = check_tuple(n, b, p, r);
        evals.fetch_add(n as u64, Ordering::Relaxed);
        valid_cfgs.fetch_add(valid, Ordering::Relaxed);
        if valid > 0 && n > 1 {
            nontrivial.fetch_add(valid, Ordering::Relaxed);
        }
        outcomes.add(if probs.is_empty() { if valid > 0 { "agree" } else { "invalid-config" } } else { "differ" });
        for (k, d, c) in probs {
            ctx.violation(&k, &d, c);
        }
        if valid > 0 && (idx % 997 == 7 || (n > 1 && idx % 211 == 0)) {
            samples.push(json!({"N": n, "B": b, "P": p, "r": r, "valid": true}));
        }
    });
    ctx.finish(
        json!({
            "evaluations": evals.load(Ordering::Relaxed),
            "distinct_nontrivial": nontrivial.load(Ordering::Relaxed),
            "rule": "every (N, i, B, P, r) in the stated ranges; counted when AppConfig::validate() accepts it; non-trivial = N > 1 (placement actually splits buckets between nodes)",
            "samples": samples.take(),
            "exhaustive": true,
            "valid_configurations": valid_cfgs.load(Ordering::Relaxed),
            "ranges": {"N": format!("1..={nmax}"), "B": format!("1..={bmax}"), "P": format!("1..={pmax}"), "r": format!("1..={rmax}"), "plus": "7 fixed large configurations"},
            "distinct_observed_outcomes": outcomes.len(),
        }),
        vec![
            "routing is read from a TopologyManager that has received an ownership request from every peer".into(),
            "the Database half (opening the buckets) is covered by construction: main.rs passes assigned_buckets() to DatabaseBuilder::bucket_ids unchanged".into(),
        ],
    );
}
