//! topox — exhaustive checks of partition placement (C13, C14, C24).
mod c13;
mod c14;
mod c24;

use std::time::Duration;

use kameo::actor::ActorId;
use libp2p::PeerId;
use sierradb_topology::TopologyManager;

pub type Mgr = TopologyManager<ActorId>;

static PEERS: std::sync::OnceLock<(Vec<PeerId>, std::collections::HashMap<PeerId, usize>)> = std::sync::OnceLock::new();

fn peers() -> &'static (Vec<PeerId>, std::collections::HashMap<PeerId, usize>) {
    PEERS.get_or_init(|| {
        let v: Vec<PeerId> = (0..1100).map(make_peer_id).collect();
        let m = v.iter().enumerate().map(|(i, p)| (*p, i)).collect();
        (v, m)
    })
}

pub fn peer_id(index: usize) -> PeerId {
    peers().0[index]
}

pub fn peer_index(p: &PeerId) -> usize {
    *peers().1.get(p).expect("known peer")
}

/// Deterministic peer ids (same construction as the crate's own test helper, any index).
fn make_peer_id(index: usize) -> PeerId {
    use libp2p::identity::{Keypair, ed25519};
    let mut seed = [0u8; 32];
    seed[0] = index as u8;
    seed[1] = (index >> 8) as u8;
    seed[2] = (index >> 16) as u8;
    seed[31] = 0x5d;
    let secret = ed25519::SecretKey::try_from_bytes(seed).expect("32 bytes");
    Keypair::from(ed25519::Keypair::from(secret)).public().to_peer_id()
}

pub fn actor_ref(index: usize) -> ActorId {
    ActorId::new_with_peer_id(0, peer_id(index))
}

pub fn new_manager(i: usize, n: usize, p: u16, b: u16, r: u8, alive_since: u64) -> Mgr {
    let mut m = TopologyManager::new(actor_ref(i), i, n, p, b, r, Duration::from_secs(3600));
    // make the incarnation timestamp a function of the harness, not of the wall clock
    m.alive_since = alive_since;
    let pid = peer_id(i);
    m.active_nodes.insert(pid, (alive_since, i));
    m
}

fn main() {
    vcommon::install_quiet_panic_hook();
    let args = vcommon::parse_args();
    match args.property.as_str() {
        "C13" => c13::run(args),
        "C14" => c14::run(args),
        "C24" => c24::run(args),
        p => vcommon::machinery_fail(&format!("topox does not serve property {p}")),
    }
}
