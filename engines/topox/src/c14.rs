//! C14 — every partition has exactly min(rf, N) distinct replicas, the same on every node.
//!
//! Part A: exhaustive over a grid of (N, B, P, r) including N >= 256: replica sets computed by real
//! `TopologyManager`s that know every peer.
//! Part B: explicit-state breadth-first search over the joint state of three real managers under
//! every order of membership events (ownership request, heartbeat, ownership response with the wire
//! regrouping, timeout, disconnect, restart with a newer `alive_since`).

use std::collections::{BTreeMap, BTreeSet, HashMap, HashSet, VecDeque};
use std::sync::atomic::{AtomicU64, Ordering};
use std::time::Duration;

use arrayvec::ArrayVec;
use kameo::actor::ActorId;
use serde_json::{Value, json};
use vcommon::{Args, Ctx, Distinct, Samples, catch, par_for_each};

use crate::{Mgr, actor_ref, new_manager, peer_id};

fn node_of(r: &ActorId, _n: usize) -> usize {
    crate::peer_index(r.peer_id().expect("remote ref"))
}

fn class_a(n: usize, r: u8) -> String {
    if r as usize > 12 && n > 12 {
        // more replicas requested than the fixed-capacity replica list can hold
        "rf>12".to_string()
    } else {
        format!("{}/rf<=12", if n >= 256 { "N>=256" } else { "N<256" })
    }
}

fn check_config(n: usize, b: u16, p: u16, r: u8) -> Vec<(String, String)> {
    let cls = class_a(n, r);
    let res = catch(|| {
        let mut out = Vec::new();
        let full_ids: Vec<usize> = if n <= 40 { (0..n).collect() } else { vec![0, 1, n - 1] };
        let assigned: Vec<HashSet<u16>> = (0..n).map(|i| new_manager(i, n, p, b, r, 1000 + i as u64).assigned_partitions).collect();
        let mut fulls: Vec<Mgr> = Vec::new();
        for &i in &full_ids {
            let mut m = new_manager(i, n, p, b, r, 1000 + i as u64);
            for j in 0..n {
                if j != i {
                    m.on_node_connected(actor_ref(j), &assigned[j], 1000 + j as u64, j, n);
                }
            }
            fulls.push(m);
        }
        let want = (r as usize).min(n);
        let view = &fulls[0];
        for part in 0..p {
            let reps = view.partition_replicas.get(&part).cloned().unwrap_or_default();
            let nodes: BTreeSet<usize> = reps.iter().map(|x| node_of(x, n)).collect();
            if nodes.len() != want || reps.len() != want {
                out.push((format!("C14/replica-count/{cls}"), format!("partition {part} has replicas {nodes:?} ({} entries), expected exactly {want} distinct", reps.len())));
                break;
            }
            for i in 0..n {
                if nodes.contains(&i) != assigned[i].contains(&part) {
                    out.push((
                        format!("C14/ownership-mismatch/{cls}"),
                        format!("partition {part}: node {i} in replica set = {}, node {i} owns it = {}", nodes.contains(&i), assigned[i].contains(&part)),
                    ));
                    return out;
                }
            }
        }
        for m in &fulls[1..] {
            for part in 0..p {
                let a: Vec<usize> = view.partition_replicas.get(&part).map(|v| v.iter().map(|x| node_of(x, n)).collect()).unwrap_or_default();
                let bb: Vec<usize> = m.partition_replicas.get(&part).map(|v| v.iter().map(|x| node_of(x, n)).collect()).unwrap_or_default();
                let sa: BTreeSet<_> = a.iter().collect();
                let sb: BTreeSet<_> = bb.iter().collect();
                if sa != sb {
                    out.push((format!("C14/views-differ/{cls}"), format!("partition {part}: node 0 sees replicas {a:?}, node {} sees {bb:?}", m.local_node_index)));
                    return out;
                }
                let oa: Vec<usize> = view.get_available_replicas(part).iter().map(|(x, _)| node_of(x, n)).collect();
                let ob: Vec<usize> = m.get_available_replicas(part).iter().map(|(x, _)| node_of(x, n)).collect();
                if oa != ob {
                    out.push((format!("C14/coordinator-order-differs/{cls}"), format!("partition {part}: node 0 orders {oa:?}, node {} orders {ob:?}", m.local_node_index)));
                    return out;
                }
            }
        }
        out
    });
    match res {
        Ok(v) => v,
        Err(pn) => vec![(format!("C14/panic/{cls}"), format!("panic: {pn}"))],
    }
}

// ------------------------------------------------------------------------------------------
// Part B

#[derive(Clone, Copy, Debug, PartialEq, Eq, Hash)]
enum Ev {
    Connect(u8, u8),   // i handles an ownership request from j
    Heartbeat(u8, u8), // i handles a heartbeat from j
    Response(u8, u8),  // i handles an ownership response describing k's current state
    Timeout(u8, u8),   // i has not heard from j for longer than the heartbeat timeout
    Disconnect(u8, u8),
    Restart(u8), // node j restarts: fresh manager, newer alive_since
    /// i handles a delayed heartbeat that node j sent before its last restart (it carries j's previous alive_since)
    StaleHeartbeat(u8, u8),
}

impl Ev {
    fn name(&self) -> String {
        format!("{self:?}")
    }
    fn kind(&self) -> &'static str {
        match self {
            Ev::Connect(..) => "connect",
            Ev::Heartbeat(..) => "heartbeat",
            Ev::Response(..) => "response",
            Ev::Timeout(..) => "timeout",
            Ev::Disconnect(..) => "disconnect",
            Ev::Restart(..) => "restart",
            Ev::StaleHeartbeat(..) => "stale-heartbeat",
        }
    }
}

#[derive(Clone)]
struct World {
    ms: Vec<Mgr>,
    alive: Vec<u64>,
    restarts: u8,
    /// ghost: told[i][j] = newest incarnation (alive_since) of node j that any message delivered to node i
    /// carried (0 = none).  Two nodes are only compared when they have been told the same incarnations.
    told: Vec<Vec<u64>>,
    /// ghost: kinds of events seen so far (for finding classification only, not part of the key)
    seen_restart: bool,
    seen_response: bool,
}

#[derive(Clone, Copy)]
struct Params {
    n: usize,
    p: u16,
    b: u16,
    r: u8,
}

fn initial(pr: Params) -> World {
    World {
        ms: (0..pr.n).map(|i| new_manager(i, pr.n, pr.p, pr.b, pr.r, 100 + i as u64)).collect(),
        alive: (0..pr.n).map(|i| 100 + i as u64).collect(),
        restarts: 0,
        told: (0..pr.n).map(|i| (0..pr.n).map(|j| if i == j { 100 + i as u64 } else { 0 }).collect()).collect(),
        seen_restart: false,
        seen_response: false,
    }
}

fn events(pr: Params, w: &World, max_restarts: u8) -> Vec<Ev> {
    let mut v = Vec::new();
    let n = pr.n as u8;
    for i in 0..n {
        for j in 0..n {
            if i != j {
                v.push(Ev::Connect(i, j));
                v.push(Ev::Heartbeat(i, j));
                v.push(Ev::Response(i, j));
                // timeouts / disconnects only make sense for peers i currently tracks
                if w.ms[i as usize].active_nodes.contains_key(&peer_id(j as usize)) {
                    v.push(Ev::Timeout(i, j));
                    v.push(Ev::Disconnect(i, j));
                }
            }
        }
    }
    if w.restarts < max_restarts {
        for j in 0..n {
            v.push(Ev::Restart(j));
        }
    }
    // messages of a node's previous incarnation may still be in flight after its restart
    for j in 0..n {
        if w.alive[j as usize] > 100 + j as u64 {
            for i in 0..n {
                if i != j {
                    v.push(Ev::StaleHeartbeat(i, j));
                }
            }
        }
    }
    v
}

fn apply(pr: Params, w: &World, ev: Ev) -> World {
    let mut w = w.clone();
    match ev {
        Ev::Connect(i, j) => {
            let (i, j) = (i as usize, j as usize);
            let owned = w.ms[j].assigned_partitions.clone();
            let alive = w.alive[j];
            w.told[i][j] = w.told[i][j].max(alive);
            w.ms[i].on_node_connected(actor_ref(j), &owned, alive, j, pr.n);
        }
        Ev::Heartbeat(i, j) => {
            let (i, j) = (i as usize, j as usize);
            let owned = w.ms[j].assigned_partitions.clone();
            let alive = w.alive[j];
            w.told[i][j] = w.told[i][j].max(alive);
            w.ms[i].on_heartbeat(actor_ref(j), &owned, alive, j, pr.n);
        }
        Ev::StaleHeartbeat(i, j) => {
            let (i, j) = (i as usize, j as usize);
            let owned = w.ms[j].assigned_partitions.clone();
            let previous = w.alive[j] - 1000;
            w.told[i][j] = w.told[i][j].max(previous);
            w.ms[i].on_heartbeat(actor_ref(j), &owned, previous, j, pr.n);
        }
        Ev::Response(i, k) => {
            w.seen_response = true;
            let (i, k) = (i as usize, k as usize);
            // what `on_node_connected` puts on the wire: per node, the set of partitions (order lost) ...
            let wire: HashMap<ActorId, HashSet<u16>> = w.ms[k].partition_replicas.iter().fold(HashMap::new(), |mut acc, (part, refs)| {
                for r in refs {
                    acc.entry(*r).or_default().insert(*part);
                }
                acc
            });
            let active = w.ms[k].active_nodes.clone();
            for (p, (alive, _)) in &active {
                let m = node_idx(p, pr.n);
                if m != i {
                    w.told[i][m] = w.told[i][m].max(*alive);
                }
            }
            // ... and what `Behaviour::handle_partition_message` rebuilds from it.  HashMap iteration order is
            // made canonical (sorted by node) so that the search is deterministic.
            let mut wire_sorted: Vec<(ActorId, Vec<u16>)> = wire.into_iter().map(|(k, v)| (k, v.into_iter().collect::<BTreeSet<_>>().into_iter().collect())).collect();
            wire_sorted.sort_by_key(|(r, _)| node_of(r, pr.n));
            let mut rebuilt: HashMap<u16, ArrayVec<ActorId, 12>> = HashMap::new();
            for (r, parts) in wire_sorted {
                for part in parts {
                    rebuilt.entry(part).or_default().push(r);
                }
            }
            w.ms[i].handle_ownership_response(&rebuilt, active);
            w.ms[i].ensure_local_partitions();
            for m in 0..pr.n {
                if m != i && !w.ms[i].active_nodes.contains_key(&peer_id(m)) {
                    w.told[i][m] = 0;
                }
            }
        }
        Ev::Timeout(i, j) => {
            let (i, j) = (i as usize, j as usize);
            let m = &mut w.ms[i];
            let saved_timeout = m.heartbeat_timeout;
            let saved: Vec<_> = m.node_heartbeats.iter().filter(|(p, _)| **p != peer_id(j)).map(|(p, t)| (*p, *t)).collect();
            m.node_heartbeats.retain(|p, _| *p == peer_id(j));
            m.heartbeat_timeout = Duration::ZERO;
            std::thread::sleep(Duration::from_micros(50));
            m.check_heartbeat_timeouts();
            m.heartbeat_timeout = saved_timeout;
            for (p, t) in saved {
                m.node_heartbeats.insert(p, t);
            }
            // a node that dropped a peer legitimately forgets which incarnation it knew
            if !w.ms[i].active_nodes.contains_key(&peer_id(j)) {
                w.told[i][j] = 0;
            }
        }
        Ev::Disconnect(i, j) => {
            w.ms[i as usize].on_node_disconnected(&peer_id(j as usize));
            w.told[i as usize][j as usize] = 0;
        }
        Ev::Restart(j) => {
            let j = j as usize;
            w.restarts += 1;
            w.seen_restart = true;
            w.alive[j] += 1000;
            w.ms[j] = new_manager(j, pr.n, pr.p, pr.b, pr.r, w.alive[j]);
            w.told[j] = (0..pr.n).map(|m| if m == j { w.alive[j] } else { 0 }).collect();
        }
    }
    w
}

fn canon(pr: Params, w: &World) -> String {
    let mut s = String::new();
    for m in &w.ms {
        let act: BTreeMap<usize, (u64, usize)> = m.active_nodes.iter().map(|(p, v)| (node_idx(p, pr.n), *v)).collect();
        let reps: BTreeMap<u16, Vec<usize>> = m.partition_replicas.iter().map(|(p, v)| (*p, v.iter().map(|x| node_of(x, pr.n)).collect())).collect();
        let cl: BTreeSet<usize> = m.cluster_nodes.keys().map(|p| node_idx(p, pr.n)).collect();
        let hb: BTreeSet<usize> = m.node_heartbeats.keys().map(|p| node_idx(p, pr.n)).collect();
        let asg: BTreeSet<u16> = m.assigned_partitions.iter().copied().collect();
        s.push_str(&format!("{act:?}|{reps:?}|{cl:?}|{hb:?}|{asg:?}#"));
    }
    s.push_str(&format!("{:?}|{}|{:?}", w.alive, w.restarts, w.told));
    s
}

fn node_idx(p: &libp2p::PeerId, _n: usize) -> usize {
    crate::peer_index(p)
}

fn expected_replicas(pr: Params, live: &BTreeSet<usize>, part: u16) -> BTreeSet<usize> {
    let primary = (part % pr.b) as usize % pr.n;
    let erf = (pr.r as usize).min(pr.n);
    (0..erf).map(|o| (primary + o) % pr.n).filter(|k| live.contains(k)).collect()
}

fn invariants(pr: Params, w: &World) -> Vec<(String, String)> {
    let mut out = Vec::new();
    let flavor = match (w.seen_response, w.seen_restart) {
        (true, true) => "after-response+restart",
        (true, false) => "after-response",
        (false, true) => "after-restart",
        (false, false) => "plain",
    };
    let lives: Vec<BTreeSet<usize>> = w.ms.iter().map(|m| m.active_nodes.keys().map(|p| node_idx(p, pr.n)).collect()).collect();
    for (i, m) in w.ms.iter().enumerate() {
        for part in 0..pr.p {
            let got: BTreeSet<usize> = m.partition_replicas.get(&part).map(|v| v.iter().map(|x| node_of(x, pr.n)).collect()).unwrap_or_default();
            let want = expected_replicas(pr, &lives[i], part);
            if got != want {
                out.push((
                    format!("C14/membership/replicas-not-function-of-live-set/{flavor}"),
                    format!("node {i} knows live members {:?} but holds replicas {got:?} for partition {part} (expected {want:?})", lives[i]),
                ));
                break;
            }
        }
    }
    for (i, m) in w.ms.iter().enumerate() {
        for (p, (alive, _)) in &m.active_nodes {
            let j = node_idx(p, pr.n);
            if *alive < w.told[i][j] {
                out.push((
                    format!("C14/membership/newer-incarnation-ignored/{flavor}"),
                    format!("node {i} was told that node {j} is alive since {} but still records {alive}", w.told[i][j]),
                ));
            }
        }
    }
    for a in 0..w.ms.len() {
        for b in (a + 1)..w.ms.len() {
            if lives[a] != lives[b] || lives[a].iter().any(|&m| w.told[a][m] != w.told[b][m]) {
                continue;
            }
            for part in 0..pr.p {
                let ra: BTreeSet<usize> = w.ms[a].partition_replicas.get(&part).map(|v| v.iter().map(|x| node_of(x, pr.n)).collect()).unwrap_or_default();
                let rb: BTreeSet<usize> = w.ms[b].partition_replicas.get(&part).map(|v| v.iter().map(|x| node_of(x, pr.n)).collect()).unwrap_or_default();
                if ra != rb {
                    out.push((
                        format!("C14/membership/same-live-set-different-replicas/{flavor}"),
                        format!("nodes {a} and {b} know the same live members {:?} but hold replicas {ra:?} vs {rb:?} for partition {part}", lives[a]),
                    ));
                    break;
                }
                let oa: Vec<usize> = w.ms[a].get_available_replicas(part).iter().map(|(x, _)| node_of(x, pr.n)).collect();
                let ob: Vec<usize> = w.ms[b].get_available_replicas(part).iter().map(|(x, _)| node_of(x, pr.n)).collect();
                if oa != ob {
                    out.push((
                        format!("C14/membership/same-live-set-different-coordinator-order/{flavor}"),
                        format!("nodes {a} and {b} know the same live members {:?} but order coordinators {oa:?} vs {ob:?} for partition {part}", lives[a]),
                    ));
                    break;
                }
            }
        }
    }
    out
}

struct BfsResult {
    states: u64,
    transitions: u64,
    depth_done: usize,
    capped: bool,
}

fn bfs(ctx: &Ctx, pr: Params, depth: usize, max_restarts: u8, cap: Duration, samples: &Samples) -> BfsResult {
    let cap = ctx.elapsed() + cap; // the cap is per search, measured from its start
    let mut seen: HashSet<u64> = HashSet::new();
    let w0 = initial(pr);
    seen.insert(vcommon::fnv(canon(pr, &w0).as_bytes()));
    let mut frontier: VecDeque<(World, Vec<Ev>)> = VecDeque::new();
    frontier.push_back((w0, vec![]));
    let mut transitions = 0u64;
    let mut depth_done = 0;
    let mut capped = false;
    for d in 1..=depth {
        let mut next = VecDeque::new();
        while let Some((w, path)) = frontier.pop_front() {
            if ctx.over(cap) {
                capped = true;
                break;
            }
            for ev in events(pr, &w, max_restarts) {
                transitions += 1;
                let path2: Vec<Ev> = path.iter().copied().chain([ev]).collect();
                let w2 = match catch(|| apply(pr, &w, ev)) {
                    Ok(w2) => w2,
                    Err(pn) => {
                        ctx.violation(
                            &format!("C14/membership/panic/{}", ev.kind()),
                            &format!("panic: {pn} after {:?}", path2),
                            json!({"part":"B","N":pr.n,"P":pr.p,"B":pr.b,"r":pr.r,"events":path2.iter().map(|e| e.name()).collect::<Vec<_>>()}),
                        );
                        continue;
                    }
                };
                let key = vcommon::fnv(canon(pr, &w2).as_bytes());
                if !seen.insert(key) {
                    continue;
                }
                for (k, dsc) in invariants(pr, &w2) {
                    ctx.violation(
                        &k,
                        &format!("{dsc} [N={} P={} B={} r={} events {:?}]", pr.n, pr.p, pr.b, pr.r, path2),
                        json!({"part":"B","N":pr.n,"P":pr.p,"B":pr.b,"r":pr.r,"events":path2.iter().map(|e| e.name()).collect::<Vec<_>>()}),
                    );
                }
                if seen.len() % 5000 == 1 {
                    samples.push(json!({"N":pr.n,"r":pr.r,"events":path2.iter().map(|e| e.name()).collect::<Vec<_>>()}));
                }
                next.push_back((w2, path2));
            }
        }
        if capped {
            break;
        }
        depth_done = d;
        frontier = next;
        if frontier.is_empty() {
            break;
        }
    }
    BfsResult { states: seen.len() as u64, transitions, depth_done, capped }
}

fn parse_ev(s: &str) -> Ev {
    let inner: Vec<u8> = s.chars().filter(|c| c.is_ascii_digit()).map(|c| c as u8 - b'0').collect();
    match s.split('(').next().unwrap() {
        "Connect" => Ev::Connect(inner[0], inner[1]),
        "Heartbeat" => Ev::Heartbeat(inner[0], inner[1]),
        "Response" => Ev::Response(inner[0], inner[1]),
        "Timeout" => Ev::Timeout(inner[0], inner[1]),
        "Disconnect" => Ev::Disconnect(inner[0], inner[1]),
        "Restart" => Ev::Restart(inner[0]),
        "StaleHeartbeat" => Ev::StaleHeartbeat(inner[0], inner[1]),
        _ => vcommon::machinery_fail(&format!("bad event {s}")),
    }
}

pub fn run(args: Args) {
    let mut ctx = Ctx::new("C14", args.tier, "model_checking");
    if let Some(rp) = &args.replay {
        ctx.replay_mode = true;
        let c: Value = vcommon::load_replay(rp);
        if c["part"] == "B" {
            let pr = Params { n: c["N"].as_u64().unwrap() as usize, p: c["P"].as_u64().unwrap() as u16, b: c["B"].as_u64().unwrap() as u16, r: c["r"].as_u64().unwrap() as u8 };
            let mut w = initial(pr);
            for e in c["events"].as_array().unwrap() {
                w = apply(pr, &w, parse_ev(e.as_str().unwrap()));
            }
            for (k, d) in invariants(pr, &w) {
                println!("replay: {d}");
                ctx.violation(&k, &d, c.clone());
            }
        } else {
            for (k, d) in check_config(c["N"].as_u64().unwrap() as usize, c["B"].as_u64().unwrap() as u16, c["P"].as_u64().unwrap() as u16, c["r"].as_u64().unwrap() as u8) {
                println!("replay: {d}");
                ctx.violation(&k, &d, c.clone());
            }
        }
        ctx.finish(json!({"states":1,"transitions":1,"traces_validated_against_impl":1,"samples":[c]}), vec![]);
    }
    let thorough = args.tier.is_thorough();
    let samples = Samples::new(10);

    // Part A
    let mut ns: Vec<usize> = if thorough { (1..=40).collect() } else { (1..=12).collect() };
    ns.extend(if thorough { vec![255usize, 256, 257, 300, 511, 512, 1000] } else { vec![255, 256, 257, 300] });
    let mut cfgs = Vec::new();
    for &n in &ns {
        let bs: BTreeSet<u16> = [1u16, 2, 3, 4, 7, 16, n as u16, n as u16 + 1].into_iter().collect();
        for &b in &bs {
            let ps: BTreeSet<u16> = [b, b + 1, 2 * b, 64].into_iter().collect();
            for &p in &ps {
                if (p as usize) < b as usize {
                    continue;
                }
                let rs: Vec<u8> = if thorough { (1..=13).chain([255]).collect() } else { vec![1, 2, 3, 5, 12, 13, 255] };
                for r in rs {
                    if n > 300 && !(r <= 3 || r == 12) {
                        continue;
                    }
                    cfgs.push((n, b, p, r));
                }
            }
        }
    }
    let cfg_count = AtomicU64::new(0);
    let outcomes = Distinct::new();
    par_for_each(&cfgs, |idx, &(n, b, p, r)| {
        let probs = check_config(n, b, p, r);
        cfg_count.fetch_add(1, Ordering::Relaxed);
        outcomes.add(probs.first().map(|x| x.0.as_str()).unwrap_or("ok"));
        for (k, d) in probs {
            ctx.violation(&k, &format!("{d} [N={n} B={b} P={p} r={r}]"), json!({"part":"A","N":n,"B":b,"P":p,"r":r}));
        }
        if idx % 997 == 3 {
            samples.push(json!({"part":"A","N":n,"B":b,"P":p,"r":r}));
        }
    });

    // Part B
    let cap = if thorough { Duration::from_secs(1200) } else { Duration::from_secs(40) };
    let mut states = 0u64;
    let mut transitions = 0u64;
    let mut bounds = Vec::new();
    let mut exhaustive = true;
    let runs: Vec<(Params, usize, u8)> = if thorough {
        vec![
            (Params { n: 3, p: 4, b: 2, r: 2 }, 7, 2),
            (Params { n: 3, p: 3, b: 3, r: 3 }, 6, 1),
            (Params { n: 3, p: 3, b: 3, r: 1 }, 6, 1),
            (Params { n: 4, p: 4, b: 4, r: 2 }, 5, 1),
            (Params { n: 2, p: 2, b: 2, r: 2 }, 9, 2),
        ]
    } else {
        vec![(Params { n: 3, p: 4, b: 2, r: 2 }, 4, 1), (Params { n: 2, p: 2, b: 2, r: 2 }, 6, 2), (Params { n: 3, p: 3, b: 3, r: 3 }, 4, 1)]
    };
    for (pr, depth, mr) in runs {
        let r = bfs(&ctx, pr, depth, mr, cap, &samples);
        states += r.states;
        transitions += r.transitions;
        exhaustive &= !r.capped;
        bounds.push(format!("N={} P={} B={} r={}: depth {} of {} complete, restarts<={}, {} states, {} transitions{}", pr.n, pr.p, pr.b, pr.r, r.depth_done, depth, mr, r.states, r.transitions, if r.capped { " (wall cap hit)" } else { "" }));
    }
    ctx.finish(
        json!({
            "states": states,
            "transitions": transitions,
            "traces_validated_against_impl": transitions,
            "samples": samples.take(),
            "exhaustive": exhaustive,
            "part_A_configurations": cfg_count.load(Ordering::Relaxed),
            "part_A_distinct_outcomes": outcomes.len(),
            "part_B_bounds": bounds,
            "rule": "Part A: every (N,B,P,r) of the grid, managers built by real TopologyManager calls; Part B: BFS over joint manager states, transition = one real TopologyManager method call; canonical state = per manager (active nodes with alive_since and index, replica lists, known cluster refs, tracked heartbeats, assigned partitions) + incarnations; Instants are dropped (only the harness-controlled timeout reads them)",
        }),
        vec![
            "the search runs on the real TopologyManager values (Clone); every transition is an implementation step, so traces_validated = transitions".into(),
            "ownership responses carry the responder's current state through the same regrouping Behaviour::handle_partition_message applies, with HashMap order canonicalised".into(),
        ],
    );
}
