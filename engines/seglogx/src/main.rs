//! seglogx — exhaustive checks of the `seglog` crate (C17, C18) against the real Writer/Reader.
mod c17;
mod c18;

use std::path::PathBuf;

pub fn scratch_dir(tag: &str) -> PathBuf {
    let base = std::env::var("VERIF_TMP").map(PathBuf::from).unwrap_or_else(|_| {
        let shm = PathBuf::from("/dev/shm");
        if shm.is_dir() { shm } else { std::env::temp_dir() }
    });
    let d = base.join(format!("verif-seglogx-{}-{}", tag, std::process::id()));
    let _ = std::fs::remove_dir_all(&d);
    std::fs::create_dir_all(&d).unwrap_or_else(|e| vcommon::machinery_fail(&format!("scratch dir: {e}")));
    d
}

fn main() {
    vcommon::install_quiet_panic_hook();
    let args = vcommon::parse_args();
    match args.property.as_str() {
        "C17" => c17::run(args),
        "C18" => c18::run(args),
        p => vcommon::machinery_fail(&format!("seglogx does not serve property {p}")),
    }
}
