//! C17 — segment-log records round-trip and corruption is always detected.
//!
//! Part A (round trip): every (header size, data length, content class, compression, placement)
//! of the enumerated grid is appended with the real `Writer`, read back through
//! `read_record(Random)`, `read_record(Sequential)`, `Iter`, `parse_record`, and the file is
//! reopened with `Writer::open`, which must resume right after the last record.
//!
//! Part B (corruption): for a three-record file in every (header size, compression, middle-record
//! variant) combination: every single bit flip, every burst of 2..=32 bits at every start bit
//! (all interior patterns for lengths <= 10, three patterns above), every truncation length
//! (file cut and zero-filled tail).  Every mutated image goes through the four read paths and
//! `Writer::open`, each inside `catch_unwind`.

use std::os::unix::fs::FileExt;
use std::path::{Path, PathBuf};
use std::sync::atomic::{AtomicU64, Ordering};
use std::time::Duration;

use seglog::parse::parse_record;
use seglog::read::{ReadError, ReadHint, Reader};
use seglog::write::Writer;
use serde_json::{Value, json};
use vcommon::{Args, Ctx, Distinct, Samples, XorShift, catch, par_for_each};

#[derive(Clone, Copy, Debug, PartialEq, Eq)]
enum Content {
    Zeros,
    Ones,
    Counter,
    Xorshift,
}

fn content(kind: Content, len: usize, seed: u64) -> Vec<u8> {
    match kind {
        Content::Zeros => vec![0u8; len],
        Content::Ones => vec![0xFF; len],
        Content::Counter => (0..len).map(|i| (i % 251) as u8).collect(),
        Content::Xorshift => XorShift::new(seed ^ len as u64).bytes(len),
    }
}

fn header_bytes<const H: usize>(tag: u8) -> [u8; H] {
    let mut h = [0u8; H];
    for (i, b) in h.iter_mut().enumerate() {
        *b = tag.wrapping_add(i as u8).wrapping_mul(31) | 1;
    }
    h
}

#[derive(Clone, Debug)]
struct RtCase {
    h: usize,
    len: usize,
    content: Content,
    compression: bool,
    start: u64,
}

fn rt_key(what: &str, c: &RtCase) -> String {
    let len_class = match c.len {
        0..=127 => "lt128",
        128..=2047 => "lt2k",
        2048..=4095 => "lt4k",
        4096..=65535 => "lt64k",
        _ => "ge64k",
    };
    format!("C17/roundtrip/{what}/H={}/comp={}/len={len_class}", c.h, c.compression)
}

fn roundtrip<const H: usize>(ctx: &Ctx, dir: &Path, tid: usize, c: &RtCase, evals: &AtomicU64) {
    let path = dir.join(format!("rt-{tid}.seg"));
    let _ = std::fs::remove_file(&path);
    let data = content(c.content, c.len, 0xC17);
    let tail = b"tail-record".to_vec();
    let size = (c.start as usize + c.len + 4 * H + 256 + 4096).next_multiple_of(4096);
    let case_json = json!({"part": "roundtrip", "H": c.h, "len": c.len, "content": format!("{:?}", c.content),
        "compression": c.compression, "start_offset": c.start});
    let fail = |what: &str, detail: String| {
        ctx.violation(&rt_key(what, c), &format!("{detail} (case {case_json})"), case_json.clone());
    };
    let r = catch(|| -> Result<(), String> {
        let mut w = Writer::<H>::create(&path, size, c.start).map_err(|e| format!("create: {e}"))?;
        if c.compression {
            w.enable_compression();
        }
        let h0 = header_bytes::<H>(7);
        let h1 = header_bytes::<H>(99);
        let (o0, l0) = w.append(&h0, &data).map_err(|e| format!("append: {e}"))?;
        let (o1, l1) = w.append(&h1, &tail).map_err(|e| format!("append tail: {e}"))?;
        if o0 != c.start || o1 != o0 + l0 as u64 {
            return Err(format!("append offsets {o0},{o1} unexpected"));
        }
        w.sync().map_err(|e| format!("sync: {e}"))?;
        let end = o1 + l1 as u64;
        let fo = w.flushed_offset();
        if fo.load() != end {
            return Err(format!("flushed offset {} != end {end}", fo.load()));
        }
        let mut rd = Reader::<H>::open(&path, Some(fo)).map_err(|e| format!("reader open: {e}"))?;
        for (hint, name) in [(ReadHint::Random, "random"), (ReadHint::Sequential, "sequential")] {
            for (off, len, hdr, dat) in [(o0, l0, &h0[..], &data[..]), (o1, l1, &h1[..], &tail[..])] {
                evals.fetch_add(1, Ordering::Relaxed);
                let rec = rd.read_record(off, hint).map_err(|e| format!("{name} read at {off}: {e}"))?;
                if rec.header.as_ref() != hdr || rec.data.as_ref() != dat || rec.offset != off || rec.len != len {
                    return Err(format!("{name} read at {off} returned different record (len {} vs {len})", rec.len));
                }
            }
        }
        // iteration
        {
            let mut it = rd.iter(c.start);
            let mut n = 0;
            loop {
                evals.fetch_add(1, Ordering::Relaxed);
                match it.next_record().map_err(|e| format!("iter: {e}"))? {
                    Some(rec) => {
                        let (off, len, hdr, dat) =
                            if n == 0 { (o0, l0, &h0[..], &data[..]) } else { (o1, l1, &h1[..], &tail[..]) };
                        if n >= 2 || rec.header.as_ref() != hdr || rec.data.as_ref() != dat || rec.offset != off || rec.len != len {
                            return Err(format!("iteration record #{n} differs"));
                        }
                        n += 1;
                    }
                    None => break,
                }
            }
            if n != 2 {
                return Err(format!("iteration yielded {n} records, expected 2"));
            }
        }
        // parse_record over the raw bytes
        let mut raw = vec![0u8; end as usize];
        rd.file().read_exact_at(&mut raw, 0).map_err(|e| format!("raw read: {e}"))?;
        for (off, len, hdr, dat) in [(o0, l0, &h0[..], &data[..]), (o1, l1, &h1[..], &tail[..])] {
            evals.fetch_add(1, Ordering::Relaxed);
            let (ph, pd, pl) = parse_record::<H>(&raw, off as usize).map_err(|e| format!("parse_record at {off}: {e}"))?;
            if &ph[..] != hdr || pd != dat || pl != len {
                return Err(format!("parse_record at {off} returned different record"));
            }
        }
        drop(rd);
        drop(w);
        evals.fetch_add(1, Ordering::Relaxed);
        let w2 = Writer::<H>::open(&path, size, c.start).map_err(|e| format!("reopen: {e}"))?;
        if w2.write_offset() != end {
            return Err(format!("reopened writer resumes at {} instead of {end}", w2.write_offset()));
        }
        Ok(())
    });
    match r {
        Ok(Ok(())) => {}
        Ok(Err(e)) => fail("mismatch", e),
        Err(p) => fail("panic", format!("panic: {p}")),
    }
    let _ = std::fs::remove_file(&path);
}

fn run_roundtrip(ctx: &Ctx, dir: &Path, thorough: bool, evals: &AtomicU64, distinct: &Distinct, samples: &Samples) -> usize {
    let mut lens: Vec<usize> = (0..=300).collect();
    lens.extend(2040..=2056);
    lens.extend(4088..=4104);
    if thorough {
        lens.extend(65_528..=65_544);
        lens.push(200_000);
    } else {
        lens.extend([65_528, 65_535, 65_536, 65_537, 65_544]);
    }
    let contents = [Content::Zeros, Content::Ones, Content::Counter, Content::Xorshift];
    let mut starts: Vec<u64> = vec![0, 48];
    if thorough {
        starts.extend((0..=16).map(|k| 65_536 - k));
    } else {
        starts.extend([65_536 - 16, 65_536 - 9, 65_536 - 8, 65_536 - 1, 65_536]);
    }
    let hs: &[usize] = &[0, 1, 8, 16];
    let mut cases = Vec::new();
    for &h in hs {
        for &len in &lens {
            for &ct in &contents {
                for compression in [false, true] {
                    // placements other than 0/48 only matter for the buffer-edge interplay; keep the full
                    // product for small records and the edge lengths.
                    for &start in &starts {
                        let edge_len = len <= 64 || len >= 2040;
                        if start > 48 && !edge_len {
                            continue;
                        }
                        if !thorough && start > 48 && !(len <= 16 || (2040..=2056).contains(&len) || len == 65_536) {
                            continue;
                        }
                        cases.push(RtCase { h, len, content: ct, compression, start });
                    }
                }
            }
        }
    }
    let order = vcommon::seeded_order(cases.len(), ctx.seed);
    let ordered: Vec<&RtCase> = order.iter().map(|&i| &cases[i]).collect();
    par_for_each(&ordered, |i, c| {
        let tid = i % 4096 + 100_000 * (i % 16);
        match c.h {
            0 => roundtrip::<0>(ctx, dir, tid, c, evals),
            1 => roundtrip::<1>(ctx, dir, tid, c, evals),
            8 => roundtrip::<8>(ctx, dir, tid, c, evals),
            16 => roundtrip::<16>(ctx, dir, tid, c, evals),
            _ => unreachable!(),
        }
        distinct.add(&format!("rt/{c:?}"));
        if i < 3 {
            samples.push(json!({"roundtrip": format!("{c:?}")}));
        }
    });
    cases.len()
}

// ---------------------------------------------------------------------------------------------
// Part B: corruption

#[derive(Clone, Debug)]
struct BaseImage {
    h: usize,
    compression: bool,
    variant: &'static str,
    start: u64,
    /// (offset, total_len, header, data)
    recs: Vec<(u64, usize, Vec<u8>, Vec<u8>)>,
    bytes: Vec<u8>, // full file image of length `size`
    size: usize,
    end: u64,
}

fn build_base<const H: usize>(dir: &Path, compression: bool, variant: &'static str) -> BaseImage {
    let path = dir.join(format!("base-{H}-{compression}-{variant}.seg"));
    let _ = std::fs::remove_file(&path);
    let start = 16u64;
    let size = 1024usize;
    let mid: Vec<u8> = match (compression, variant) {
        (false, "empty") => vec![],
        (false, "one") => vec![0x5A],
        (false, "mid") => content(Content::Counter, 17, 1),
        (true, "zeros200") => vec![0u8; 200],
        (true, "counter130") => (0..130).map(|i| (i % 7) as u8).collect(),
        (true, "small") => vec![0x5A; 9], // below the compression threshold: stored plain
        _ => unreachable!(),
    };
    let datas: Vec<Vec<u8>> = vec![b"first".to_vec(), mid, b"end".to_vec()];
    let mut w = Writer::<H>::create(&path, size, start).expect("create base");
    if compression {
        w.enable_compression();
    }
    let mut recs = Vec::new();
    for (i, d) in datas.iter().enumerate() {
        let h = header_bytes::<H>(i as u8 + 1);
        let (o, l) = w.append(&h, d).expect("append base");
        recs.push((o, l, h.to_vec(), d.clone()));
    }
    w.sync().expect("sync base");
    let end = w.write_offset();
    drop(w);
    let bytes = std::fs::read(&path).expect("read base");
    assert_eq!(bytes.len(), size);
    let _ = std::fs::remove_file(&path);
    BaseImage { h: H, compression, variant, start, recs, bytes, size, end }
}

#[derive(Clone, Debug)]
enum Mutation {
    /// XOR `mask_bits` (LSB-first bit string) starting at absolute bit `start_bit`
    Burst { start_bit: usize, len: usize, pattern: u64 },
    /// file cut to `k` bytes
    Cut { k: usize },
    /// bytes from `k` on replaced by zeros (crash image: fallocated tail)
    ZeroTail { k: usize },
}

impl Mutation {
    fn apply(&self, base: &[u8]) -> Vec<u8> {
        match self {
            Mutation::Burst { start_bit, len, pattern } => {
                let mut v = base.to_vec();
                for i in 0..*len {
                    if (pattern >> i) & 1 == 1 {
                        let bit = start_bit + i;
                        v[bit / 8] ^= 1 << (bit % 8);
                    }
                }
                v
            }
            Mutation::Cut { k } => base[..*k].to_vec(),
            Mutation::ZeroTail { k } => {
                let mut v = base.to_vec();
                for b in &mut v[*k..] {
                    *b = 0;
                }
                v
            }
        }
    }
    /// byte range [lo, hi) changed by the mutation
    fn range(&self, size: usize) -> (usize, usize) {
        match self {
            Mutation::Burst { start_bit, len, .. } => (start_bit / 8, (start_bit + len - 1) / 8 + 1),
            Mutation::Cut { k } | Mutation::ZeroTail { k } => (*k, size),
        }
    }
    fn class(&self) -> String {
        match self {
            Mutation::Burst { len: 1, .. } => "bitflip".into(),
            Mutation::Burst { .. } => "burst".into(),
            Mutation::Cut { .. } => "cut".into(),
            Mutation::ZeroTail { .. } => "zerotail".into(),
        }
    }
    fn json(&self) -> Value {
        match self {
            Mutation::Burst { start_bit, len, pattern } => json!({"kind":"burst","start_bit":start_bit,"len":len,"pattern":pattern}),
            Mutation::Cut { k } => json!({"kind":"cut","k":k}),
            Mutation::ZeroTail { k } => json!({"kind":"zerotail","k":k}),
        }
    }
    fn from_json(v: &Value) -> Mutation {
        match v["kind"].as_str().unwrap() {
            "burst" => Mutation::Burst {
                start_bit: v["start_bit"].as_u64().unwrap() as usize,
                len: v["len"].as_u64().unwrap() as usize,
                pattern: v["pattern"].as_u64().unwrap(),
            },
            "cut" => Mutation::Cut { k: v["k"].as_u64().unwrap() as usize },
            _ => Mutation::ZeroTail { k: v["k"].as_u64().unwrap() as usize },
        }
    }
}

fn burst_patterns(len: usize, thorough: bool) -> Vec<u64> {
    // a burst of length `len` has its first and last bit set
    if len == 1 {
        return vec![1];
    }
    let ends = 1u64 | (1u64 << (len - 1));
    let full_limit = if thorough { 10 } else { 6 };
    if len <= full_limit {
        let interior = len - 2;
        return (0..(1u64 << interior)).map(|m| ends | (m << 1)).collect();
    }
    let all = if len == 64 { u64::MAX } else { (1u64 << len) - 1 };
    let mut alt = 0u64;
    for i in (0..len).step_by(2) {
        alt |= 1 << i;
    }
    alt |= ends;
    let mut v = vec![all, alt, ends];
    v.sort();
    v.dedup();
    v
}

fn err_class(e: &ReadError) -> &'static str {
    match e {
        ReadError::Crc32cMismatch { .. } => "crc",
        ReadError::OutOfBounds { .. } => "oob",
        ReadError::TruncationMarker { .. } => "trunc",
        ReadError::ReplaceLengthMismatch { .. } => "replace-len",
        ReadError::Io(_) => "io",
    }
}

struct MutOutcome {
    problems: Vec<(String, String)>, // (key suffix, detail)
    outcome_sig: String,
    evals: u64,
}

fn check_mutated<const H: usize>(base: &BaseImage, m: &Mutation, path: &Path) -> MutOutcome {
    let img = m.apply(&base.bytes);
    let mut out = MutOutcome { problems: vec![], outcome_sig: String::new(), evals: 0 };
    if img == base.bytes {
        out.outcome_sig = "identity".into();
        return out;
    }
    let (lo, hi) = m.range(base.size);
    let touched = |r: &(u64, usize, Vec<u8>, Vec<u8>)| -> bool {
        let (o, l) = (r.0 as usize, r.1);
        lo < o + l && o < hi
    };
    let first_touched = base.recs.iter().position(touched);
    let class = m.class();
    let mut sig = String::new();

    let judge = |path_name: &str, idx: usize, res: Result<Result<(Vec<u8>, Vec<u8>, usize), ReadError>, String>, problems: &mut Vec<(String, String)>, sig: &mut String| {
        let r = &base.recs[idx];
        let t = touched(r);
        match res {
            Err(p) => {
                sig.push_str("P");
                problems.push((format!("panic/{path_name}/{class}"), format!("{path_name} read of record {idx} panicked: {p}")));
            }
            Ok(Ok((h, d, l))) => {
                sig.push_str("O");
                if t {
                    problems.push((
                        format!("accepted-corrupt/{path_name}/{class}"),
                        format!("{path_name} read returned Ok for record {idx} although its bytes were mutated"),
                    ));
                } else if h != r.2 || d != r.3 || l != r.1 {
                    problems.push((format!("wrong-data/{path_name}/{class}"), format!("{path_name} read of untouched record {idx} returned different bytes")));
                }
            }
            Ok(Err(e)) => {
                sig.push_str(err_class(&e));
                if !t {
                    problems.push((
                        format!("intact-rejected/{path_name}/{class}"),
                        format!("{path_name} read of untouched record {idx} failed: {e}"),
                    ));
                }
            }
        }
        sig.push(',');
    };

    // 1. parse_record (in memory)
    for idx in 0..base.recs.len() {
        let off = base.recs[idx].0 as usize;
        out.evals += 1;
        let res = catch(|| parse_record::<H>(&img, off).map(|(h, d, l)| (h.to_vec(), d, l)));
        judge("parse", idx, res, &mut out.problems, &mut sig);
    }

    // 2. file based paths
    if let Err(e) = std::fs::write(path, &img) {
        vcommon::machinery_fail(&format!("write mutated image: {e}"));
    }
    for (hint, name) in [(ReadHint::Random, "random"), (ReadHint::Sequential, "sequential")] {
        for idx in 0..base.recs.len() {
            let off = base.recs[idx].0;
            out.evals += 1;
            let res = catch(|| {
                let mut rd = Reader::<H>::open(path, None)?;
                rd.read_record(off, hint).map(|r| (r.header.to_vec(), r.data.to_vec(), r.len))
            });
            judge(name, idx, res, &mut out.problems, &mut sig);
        }
    }
    // 3. iteration from the start
    {
        out.evals += 1;
        let res = catch(|| -> Result<(Vec<(Vec<u8>, Vec<u8>, usize, u64)>, Option<&'static str>), ReadError> {
            let mut rd = Reader::<H>::open(path, None)?;
            let mut it = rd.iter(base.start);
            let mut got = Vec::new();
            loop {
                match it.next_record() {
                    Ok(Some(r)) => {
                        got.push((r.header.to_vec(), r.data.to_vec(), r.len, r.offset));
                        if got.len() > 8 {
                            return Ok((got, Some("runaway")));
                        }
                    }
                    Ok(None) => return Ok((got, None)),
                    Err(e) => return Ok((got, Some(err_class(&e)))),
                }
            }
        });
        match res {
            Err(p) => {
                sig.push_str("iterP");
                out.problems.push((format!("panic/iter/{class}"), format!("iteration panicked: {p}")));
            }
            Ok(Err(e)) => {
                sig.push_str("iterOpenErr");
                out.problems.push((format!("iter-open/{class}"), format!("reader open failed: {e}")));
            }
            Ok(Ok((got, stop))) => {
                sig.push_str(&format!("iter{}{}", got.len(), stop.unwrap_or("end")));
                let limit = first_touched.unwrap_or(base.recs.len());
                for (i, g) in got.iter().enumerate() {
                    if i < base.recs.len() {
                        let r = &base.recs[i];
                        if i >= limit && first_touched == Some(i) {
                            out.problems.push((format!("accepted-corrupt/iter/{class}"), format!("iteration yielded mutated record {i}")));
                            break;
                        }
                        if i < limit && (g.0 != r.2 || g.1 != r.3 || g.2 != r.1 || g.3 != r.0) {
                            out.problems.push((format!("wrong-data/iter/{class}"), format!("iteration yielded different bytes for untouched record {i}")));
                            break;
                        }
                    }
                }
                if got.len() < limit {
                    out.problems.push((
                        format!("intact-rejected/iter/{class}"),
                        format!("iteration stopped after {} records although records 0..{limit} are untouched ({stop:?})", got.len()),
                    ));
                }
            }
        }
        sig.push(',');
    }
    // 4. Writer::open resumes right after the last intact record preceding the mutation
    {
        out.evals += 1;
        let res = catch(|| Writer::<H>::open(path, base.size.max(base.start as usize + 1), base.start).map(|w| w.write_offset()));
        let expect = match first_touched {
            Some(i) => base.recs[i].0,
            None => base.end,
        };
        match res {
            Err(p) => {
                sig.push_str("openP");
                out.problems.push((format!("panic/writer-open/{class}"), format!("Writer::open panicked: {p}")));
            }
            Ok(Err(e)) => {
                sig.push_str("openErr");
                out.problems.push((format!("writer-open-error/{class}"), format!("Writer::open failed: {e}")));
            }
            Ok(Ok(wo)) => {
                sig.push_str(if wo == expect { "openOk" } else { "openWrong" });
                // bytes changed strictly after the last record (trailing area) may or may not look like
                // garbage; the statement only constrains resumption after the last intact record.
                if wo != expect {
                    out.problems.push((
                        format!("writer-open-offset/{class}"),
                        format!("Writer::open resumed at {wo}, expected {expect} (first touched record: {first_touched:?})"),
                    ));
                }
            }
        }
    }
    out.outcome_sig = sig;
    out
}

fn run_mutations<const H: usize>(
    ctx: &Ctx,
    dir: &Path,
    base: &BaseImage,
    thorough: bool,
    evals: &AtomicU64,
    images: &AtomicU64,
    outcomes: &Distinct,
    samples: &Samples,
    cap: Duration,
    capped: &std::sync::atomic::AtomicBool,
) {
    let lo_bit = base.start as usize * 8;
    let hi_bit = (base.end as usize + 12) * 8; // 12 bytes into the zero tail as well
    let mut muts = Vec::new();
    for len in 1..=32usize {
        let pats = burst_patterns(len, thorough);
        for start_bit in lo_bit..(hi_bit - len + 1) {
            for &p in &pats {
                muts.push(Mutation::Burst { start_bit, len, pattern: p });
            }
        }
    }
    for k in (base.start as usize)..=(base.end as usize + 8) {
        muts.push(Mutation::Cut { k });
        muts.push(Mutation::ZeroTail { k });
    }
    let order = vcommon::seeded_order(muts.len(), ctx.seed);
    let chunks: Vec<&[usize]> = order.chunks(2048).collect();
    par_for_each(&chunks, |ci, chunk| {
        if ctx.over(cap) {
            capped.store(true, Ordering::Relaxed);
            return;
        }
        let path: PathBuf = dir.join(format!("mut-{H}-{}-{}-{ci}.seg", base.compression, base.variant));
        for &mi in chunk.iter() {
            let m = &muts[mi];
            let o = check_mutated::<H>(base, m, &path);
            evals.fetch_add(o.evals, Ordering::Relaxed);
            if o.outcome_sig != "identity" {
                images.fetch_add(1, Ordering::Relaxed);
            }
            outcomes.add(&o.outcome_sig);
            for (k, detail) in o.problems {
                let key = format!("C17/corrupt/{k}/H={}", base.h);
                ctx.violation(
                    &key,
                    &format!("{detail}; base H={} compression={} variant={} mutation={}", base.h, base.compression, base.variant, m.json()),
                    json!({"part":"corrupt","H":base.h,"compression":base.compression,"variant":base.variant,"mutation":m.json()}),
                );
            }
            if mi % 50_000 == 0 {
                samples.push(json!({"H":base.h,"compression":base.compression,"variant":base.variant,"mutation":m.json(),"outcome":o.outcome_sig}));
            }
        }
        let _ = std::fs::remove_file(&path);
    });
}

fn bases_for<const H: usize>(dir: &Path, thorough: bool) -> Vec<BaseImage> {
    let mut v = Vec::new();
    let plain: &[&'static str] = if thorough { &["empty", "one", "mid"] } else { &["one", "mid"] };
    let comp: &[&'static str] = if thorough { &["zeros200", "counter130", "small"] } else { &["zeros200"] };
    for &p in plain {
        v.push(build_base::<H>(dir, false, p));
    }
    for &c in comp {
        v.push(build_base::<H>(dir, true, c));
    }
    v
}

pub fn run(args: Args) {
    let mut ctx = Ctx::new("C17", args.tier, "exploration");
    let dir = crate::scratch_dir("c17");
    let thorough = args.tier.is_thorough();

    if let Some(rp) = &args.replay {
        ctx.replay_mode = true;
        let case = vcommon::load_replay(rp);
        let evals = AtomicU64::new(0);
        if case["part"] == "roundtrip" {
            let c = RtCase {
                h: case["H"].as_u64().unwrap() as usize,
                len: case["len"].as_u64().unwrap() as usize,
                content: match case["content"].as_str().unwrap() {
                    "Zeros" => Content::Zeros,
                    "Ones" => Content::Ones,
                    "Counter" => Content::Counter,
                    _ => Content::Xorshift,
                },
                compression: case["compression"].as_bool().unwrap(),
                start: case["start_offset"].as_u64().unwrap(),
            };
            match c.h {
                0 => roundtrip::<0>(&ctx, &dir, 0, &c, &evals),
                1 => roundtrip::<1>(&ctx, &dir, 0, &c, &evals),
                8 => roundtrip::<8>(&ctx, &dir, 0, &c, &evals),
                _ => roundtrip::<16>(&ctx, &dir, 0, &c, &evals),
            }
        } else {
            let h = case["H"].as_u64().unwrap() as usize;
            let comp = case["compression"].as_bool().unwrap();
            let variant: &'static str = match case["variant"].as_str().unwrap() {
                "empty" => "empty",
                "one" => "one",
                "mid" => "mid",
                "zeros200" => "zeros200",
                "counter130" => "counter130",
                _ => "small",
            };
            let m = Mutation::from_json(&case["mutation"]);
            let path = dir.join("replay.seg");
            macro_rules! go {
                ($H:literal) => {{
                    let base = build_base::<$H>(&dir, comp, variant);
                    let o = check_mutated::<$H>(&base, &m, &path);
                    println!("replay outcome: {}", o.outcome_sig);
                    for (k, d) in o.problems {
                        ctx.violation(&format!("C17/corrupt/{k}/H={}", h), &d, case.clone());
                    }
                }};
            }
            match h {
                0 => go!(0),
                1 => go!(1),
                8 => go!(8),
                _ => go!(16),
            }
        }
        let _ = std::fs::remove_dir_all(&dir);
        ctx.finish(json!({"evaluations": 1, "distinct_nontrivial": 2, "rule": "replay", "samples": [case]}), vec![]);
    }

    let evals = AtomicU64::new(0);
    let images = AtomicU64::new(0);
    let distinct = Distinct::new();
    let outcomes = Distinct::new();
    let samples = Samples::new(24);
    let rt_cases = run_roundtrip(&ctx, &dir, thorough, &evals, &distinct, &samples);
    let rt_evals = evals.load(Ordering::Relaxed);

    let cap = if thorough { Duration::from_secs(1500) } else { Duration::from_secs(50) };
    let capped = std::sync::atomic::AtomicBool::new(false);
    let mut nbases = 0;
    macro_rules! sweep {
        ($H:literal) => {{
            for base in bases_for::<$H>(&dir, thorough) {
                nbases += 1;
                run_mutations::<$H>(&ctx, &dir, &base, thorough, &evals, &images, &outcomes, &samples, cap, &capped);
            }
        }};
    }
    sweep!(1); // what sierradb uses
    sweep!(0);
    if thorough {
        sweep!(8);
        sweep!(16);
    }
    let _ = std::fs::remove_dir_all(&dir);

    let total = evals.load(Ordering::Relaxed);
    let nimg = images.load(Ordering::Relaxed);
    let exhaustive = !capped.load(Ordering::Relaxed);
    if !exhaustive {
        ctx.note("wall cap hit during the mutation sweep: remaining chunks of the fixed enumeration were skipped");
    }
    ctx.finish(
        json!({
            "evaluations": total,
            "distinct_nontrivial": rt_cases as u64 + nimg,
            "rule": "round trip: full grid (header size x data length x content class x compression x placement), each case = append + 4 read paths + reopen; \
                     corruption: every bit flip / burst (start bit x length 1..=32 x interior pattern) / cut / zero-tail of a 3-record file per (H, compression, middle-record variant); \
                     a case is counted when the mutated image differs from the original (distinct by construction: distinct XOR masks or cut points)",
            "samples": samples.take(),
            "exhaustive": exhaustive,
            "roundtrip_cases": rt_cases,
            "roundtrip_reads": rt_evals,
            "mutated_images": nimg,
            "base_images": nbases,
            "distinct_observed_outcomes": outcomes.len(),
            "header_sizes": if thorough { json!([0,1,8,16]) } else { json!([0,1]) },
        }),
        vec![
            "file images live on tmpfs/page cache; the kernel returns what was written".into(),
            "burst interior patterns are complete for lengths <= 10 (thorough) / <= 6 (quick); longer bursts use all-ones, alternating and ends-only".into(),
        ],
    );
}
