//! C18 — segment-log readers never serve stale or unflushed data.
//!
//! Breadth-first enumeration of *all* operation sequences up to a depth over a small alphabet of
//! writer operations (append small/medium/large, flush_writer, sync, set_len, compression toggle)
//! and reader operations (random read, sequential read, iteration, header replacement, raw byte
//! reads) through up to two long-lived readers.  Every sequence runs on a fresh real
//! `Writer`/`Reader` pair and is compared step by step with a reference model (list of records,
//! flushed length).

use std::path::Path;
use std::sync::atomic::{AtomicBool, AtomicU64, Ordering};
use std::time::Duration;

use seglog::read::{ReadHint, Reader};
use seglog::write::Writer;
use serde_json::{Value, json};
use vcommon::{Args, Ctx, Distinct, Samples, catch, par_for_each};

#[derive(Clone, Copy, Debug, PartialEq, Eq, Hash)]
enum Op {
    AppendS,
    AppendM,
    AppendL,
    Flush,
    Sync,
    SetLenFirst,
    SetLenLast,
    Toggle,
    CloneReader,
    // reader ops: (reader index, ...)
    ReadRandom(u8, Pos),
    ReadSeq(u8, Pos),
    Iter(u8, Pos),
    Replace(u8),
    /// header replacement on the *oldest* flushed record (a different read-ahead window than the newest
    /// one once a large record lies in between)
    ReplaceFirst(u8),
    ReadBytes(u8),
}

#[derive(Clone, Copy, Debug, PartialEq, Eq, Hash)]
enum Pos {
    First,
    Last,
    /// the third record (the one behind the large record of the multi-window prefix); the last one if
    /// there are fewer
    Third,
}

impl Op {
    fn is_reader(&self) -> bool {
        matches!(self, Op::ReadRandom(..) | Op::ReadSeq(..) | Op::Iter(..) | Op::Replace(..) | Op::ReplaceFirst(..) | Op::ReadBytes(..))
    }
    fn reader(&self) -> Option<u8> {
        match self {
            Op::ReadRandom(r, _) | Op::ReadSeq(r, _) | Op::Iter(r, _) | Op::Replace(r) | Op::ReplaceFirst(r) | Op::ReadBytes(r) => Some(*r),
            _ => None,
        }
    }
    fn name(&self) -> String {
        format!("{self:?}")
    }
    fn parse(s: &str) -> Op {
        let mut all = alphabet(1, true);
        all.extend(alphabet_windows());
        all.extend(WINDOWS_PREFIX);
        all.into_iter().find(|o| o.name() == s).unwrap_or_else(|| vcommon::machinery_fail(&format!("unknown op {s}")))
    }
}

/// single long-lived reader, no large records: the alphabet used for the deepest exploration
fn alphabet_mini(h: usize) -> Vec<Op> {
    let mut v = vec![
        Op::AppendS,
        Op::Sync,
        Op::ReadSeq(0, Pos::Last),
        Op::Iter(0, Pos::First),
        Op::SetLenLast,
        Op::ReadRandom(0, Pos::Last),
        Op::ReadSeq(0, Pos::First),
        Op::AppendM,
    ];
    if h > 0 {
        v.push(Op::Replace(0));
    }
    v
}

/// The multi-window family starts from a non-initial state: a small record, a 70 KiB record (larger than
/// the 64 KiB read-ahead window), two small records behind it, all flushed.  The oldest and the newest
/// records then live in different read-ahead windows.
const WINDOWS_PREFIX: [Op; 5] = [Op::AppendS, Op::AppendL, Op::AppendS, Op::AppendS, Op::Sync];

fn alphabet_windows() -> Vec<Op> {
    vec![
        Op::Iter(0, Pos::Third),
        Op::SetLenLast,
        Op::AppendS,
        Op::Sync,
        Op::ReplaceFirst(0),
        Op::ReadSeq(0, Pos::Last),
        Op::Replace(0),
        Op::ReadSeq(0, Pos::First),
        Op::Iter(0, Pos::First),
    ]
}

/// two long-lived readers and header replacement (H = 1 only)
fn alphabet_two() -> Vec<Op> {
    vec![
        Op::AppendS,
        Op::Sync,
        Op::CloneReader,
        Op::ReadSeq(1, Pos::Last),
        Op::Replace(0),
        Op::ReadSeq(0, Pos::Last),
        Op::Replace(1),
        Op::Iter(1, Pos::First),
        Op::ReadRandom(1, Pos::Last),
    ]
}

fn alphabet(h: usize, full: bool) -> Vec<Op> {
    let mut v = vec![Op::AppendS, Op::Sync, Op::SetLenLast, Op::SetLenFirst, Op::Flush, Op::AppendM, Op::Toggle, Op::AppendL, Op::CloneReader];
    if !full {
        v = vec![Op::AppendS, Op::Sync, Op::SetLenLast, Op::Flush, Op::AppendM, Op::CloneReader];
    }
    for r in 0..2u8 {
        for p in [Pos::Last, Pos::First] {
            v.push(Op::ReadSeq(r, p));
            v.push(Op::ReadRandom(r, p));
            v.push(Op::Iter(r, p));
        }
        if h > 0 {
            v.push(Op::Replace(r));
        }
        if full {
            v.push(Op::ReadBytes(r));
        }
    }
    v
}

#[derive(Clone, Debug)]
struct MRec {
    off: u64,
    len: usize,
    header: Vec<u8>,
    data: Vec<u8>,
}

#[derive(Clone, Debug, Default)]
struct Model {
    recs: Vec<MRec>,
    flushed: u64,
    write_off: u64,
    dirty: bool,
    compression: bool,
    appended: u32,
    replaced: u32,
}

const START: u64 = 48;
fn seg_size(ops: &[Op]) -> usize {
    // large records only exist in the full alphabet; keep the (fallocated) file small otherwise
    if ops.iter().any(|o| matches!(o, Op::AppendL)) { 512 * 1024 } else { 128 * 1024 }
}

fn payload(kind: Op, n: u32) -> Vec<u8> {
    match kind {
        Op::AppendS => format!("s{n:04}").into_bytes(),
        // compressible, above the compression threshold, larger than the optimistic read buffer
        Op::AppendM => (0..3 * 1024).map(|i| ((i / 16) as u8).wrapping_add(n as u8)).collect(),
        // larger than the 64 KiB read-ahead buffer
        Op::AppendL => (0..70 * 1024).map(|i| ((i / 64) as u8) ^ (n as u8)).collect(),
        _ => unreachable!(),
    }
}

struct Failure {
    kind: String,
    detail: String,
    step: usize,
}

/// Executes `ops` on fresh real objects.  Returns the failure of the first step that disagrees
/// with the model, and a signature of the model states visited.
fn execute<const H: usize>(ops: &[Op], path: &Path, states: Option<&Distinct>, transitions: Option<&AtomicU64>) -> Option<Failure> {
    let _ = std::fs::remove_file(path);
    let mut w = match Writer::<H>::create(path, seg_size(ops), START) {
        Ok(w) => w,
        Err(e) => vcommon::machinery_fail(&format!("create {}: {e}", path.display())),
    };
    let r0 = match Reader::<H>::open(path, Some(w.flushed_offset())) {
        Ok(r) => r,
        Err(e) => vcommon::machinery_fail(&format!("reader open: {e}")),
    };
    let mut readers: Vec<Option<Reader<H>>> = vec![Some(r0), None];
    let mut m = Model { flushed: START, write_off: START, ..Default::default() };

    for (step, op) in ops.iter().enumerate() {
        if let Some(t) = transitions {
            t.fetch_add(1, Ordering::Relaxed);
        }
        let fail = |kind: &str, detail: String| Some(Failure { kind: kind.to_string(), detail, step });
        match *op {
            Op::AppendS | Op::AppendM | Op::AppendL => {
                let data = payload(*op, m.appended);
                let mut hdr = [0u8; H];
                for (i, b) in hdr.iter_mut().enumerate() {
                    *b = (m.appended as u8).wrapping_mul(3).wrapping_add(i as u8) | 0x10;
                }
                m.appended += 1;
                match catch(|| w.append(&hdr, &data)) {
                    Ok(Ok((off, len))) => {
                        if off != m.write_off {
                            return fail("append-offset", format!("append returned offset {off}, model write offset {}", m.write_off));
                        }
                        m.recs.push(MRec { off, len, header: hdr.to_vec(), data });
                        m.write_off += len as u64;
                        m.dirty = true;
                    }
                    Ok(Err(e)) => return fail("append-error", format!("append failed: {e}")),
                    Err(p) => return fail("panic", format!("append panicked: {p}")),
                }
            }
            Op::Flush => {
                if let Err(e) = w.flush_writer() {
                    return fail("flush-error", format!("{e}"));
                }
            }
            Op::Sync => match w.sync() {
                Ok(o) => {
                    if o != m.write_off {
                        return fail("sync-offset", format!("sync returned {o}, model {}", m.write_off));
                    }
                    if m.dirty {
                        m.flushed = m.write_off;
                        m.dirty = false;
                    }
                }
                Err(e) => return fail("sync-error", format!("{e}")),
            },
            Op::SetLenFirst | Op::SetLenLast => {
                let target = match (op, m.recs.first(), m.recs.last()) {
                    (Op::SetLenFirst, Some(f), _) => f.off,
                    (Op::SetLenLast, _, Some(l)) => l.off,
                    _ => START,
                };
                match w.set_len(target) {
                    Ok(()) => {
                        if target < m.write_off {
                            m.recs.retain(|r| r.off < target);
                            m.write_off = target;
                            m.flushed = target;
                            m.dirty = false;
                        }
                    }
                    Err(e) => return fail("set_len-error", format!("{e}")),
                }
            }
            Op::Toggle => {
                m.compression = !m.compression;
                if m.compression {
                    w.enable_compression()
                } else {
                    w.disable_compression()
                }
            }
            Op::CloneReader => {
                let c = readers[0].as_ref().unwrap().try_clone();
                match c {
                    Ok(c) => readers[1] = Some(c),
                    Err(e) => vcommon::machinery_fail(&format!("try_clone: {e}")),
                }
            }
            Op::ReadRandom(r, p) | Op::ReadSeq(r, p) => {
                let hint = if matches!(op, Op::ReadRandom(..)) { ReadHint::Random } else { ReadHint::Sequential };
                let rd = readers[r as usize].as_mut().expect("reader exists (enumeration guarantees it)");
                let target = match p {
                    Pos::First => m.recs.first(),
                    Pos::Last => m.recs.last(),
                    Pos::Third => m.recs.get(2).or(m.recs.last()),
                };
                let off = target.map(|t| t.off).unwrap_or(m.write_off);
                let res = catch(|| rd.read_record(off, hint).map(|rec| (rec.header.to_vec(), rec.data.to_vec(), rec.len, rec.offset)));
                match (res, target) {
                    (Err(pn), _) => return fail("panic", format!("read_record({off}) panicked: {pn}")),
                    (Ok(Ok(got)), Some(t)) => {
                        if t.off + t.len as u64 > m.flushed {
                            return fail("unflushed-served", format!("read at {off} returned a record that ends beyond the flushed offset {}", m.flushed));
                        }
                        if got.0 != t.header || got.1 != t.data || got.2 != t.len || got.3 != t.off {
                            return fail(
                                "stale-or-wrong-record",
                                format!("read at {off} returned a different record than the one written there (header {:?} vs {:?}, data equal: {})", got.0, t.header, got.1 == t.data),
                            );
                        }
                    }
                    (Ok(Ok(_)), None) => return fail("phantom-record", format!("read at {off} (no record there) returned Ok")),
                    (Ok(Err(e)), Some(t)) => {
                        if t.off + t.len as u64 <= m.flushed {
                            return fail("flushed-record-unreadable", format!("record at {off} (end {} <= flushed {}) failed: {e}", t.off + t.len as u64, m.flushed));
                        }
                    }
                    (Ok(Err(_)), None) => {}
                }
            }
            Op::Iter(r, p) => {
                let rd = readers[r as usize].as_mut().expect("reader exists");
                let first_idx = match p {
                    Pos::First => 0usize,
                    Pos::Last => m.recs.len().saturating_sub(1),
                    Pos::Third => 2usize.min(m.recs.len().saturating_sub(1)),
                };
                let off = m.recs.get(first_idx).map(|t| t.off).unwrap_or(m.write_off);
                let expect: Vec<&MRec> = m.recs[first_idx.min(m.recs.len())..].iter().take_while(|t| t.off + t.len as u64 <= m.flushed).collect();
                let res = catch(|| {
                    let mut it = rd.iter(off);
                    let mut got = Vec::new();
                    loop {
                        match it.next_record() {
                            Ok(Some(rec)) => {
                                got.push((rec.header.to_vec(), rec.data.to_vec(), rec.len, rec.offset));
                                if got.len() > 64 {
                                    return Err("runaway iteration".to_string());
                                }
                            }
                            Ok(None) => return Ok(got),
                            Err(e) => return Err(format!("iteration error after {} records: {e}", got.len())),
                        }
                    }
                });
                match res {
                    Err(pn) => return fail("panic", format!("iteration from {off} panicked: {pn}")),
                    Ok(Err(e)) => return fail("iter-error", e),
                    Ok(Ok(got)) => {
                        if got.len() != expect.len() {
                            return fail(
                                if got.len() < expect.len() { "iter-missing-flushed" } else { "iter-extra" },
                                format!("iteration from {off} yielded {} records, model has {} flushed records from there", got.len(), expect.len()),
                            );
                        }
                        for (g, t) in got.iter().zip(expect.iter()) {
                            if g.0 != t.header || g.1 != t.data || g.2 != t.len || g.3 != t.off {
                                return fail("stale-or-wrong-record", format!("iteration yielded a different record at {}", t.off));
                            }
                        }
                    }
                }
            }
            Op::Replace(r) | Op::ReplaceFirst(r) => {
                let rd = readers[r as usize].as_mut().expect("reader exists");
                // newest (oldest) flushed record
                let idx = if matches!(op, Op::ReplaceFirst(_)) {
                    m.recs.iter().position(|t| t.off + t.len as u64 <= m.flushed)
                } else {
                    m.recs.iter().rposition(|t| t.off + t.len as u64 <= m.flushed)
                };
                m.replaced += 1;
                let mut nh = [0u8; H];
                for (i, b) in nh.iter_mut().enumerate() {
                    *b = 0xA0u8.wrapping_add(m.replaced as u8).wrapping_add(i as u8);
                }
                match idx {
                    Some(i) => {
                        let off = m.recs[i].off;
                        match catch(|| rd.replace_header(off, nh)) {
                            Err(pn) => return fail("panic", format!("replace_header panicked: {pn}")),
                            Ok(Err(e)) => return fail("replace-error", format!("replace_header on flushed record at {off} failed: {e}")),
                            Ok(Ok(())) => m.recs[i].header = nh.to_vec(),
                        }
                    }
                    None => {
                        // nothing flushed: replacing at the first (unflushed or absent) position must fail
                        let off = m.recs.first().map(|t| t.off).unwrap_or(START);
                        if let Ok(Ok(())) = catch(|| rd.replace_header(off, nh)) {
                            return fail("unflushed-served", format!("replace_header at {off} succeeded although nothing is flushed there"));
                        }
                    }
                }
            }
            Op::ReadBytes(r) => {
                let rd = readers[r as usize].as_ref().expect("reader exists");
                let mut buf = vec![0u8; 8];
                // straddling the flushed offset: must fail
                if m.flushed >= 4 {
                    if rd.read_bytes(m.flushed - 4, &mut buf).is_ok() {
                        return fail("unflushed-served", format!("read_bytes({}, 8) succeeded beyond flushed offset {}", m.flushed - 4, m.flushed));
                    }
                }
                if rd.read_bytes(m.flushed, &mut buf[..1]).is_ok() {
                    return fail("unflushed-served", format!("read_bytes at the flushed offset {} succeeded", m.flushed));
                }
                if m.flushed >= START + 8 {
                    if let Err(e) = rd.read_bytes(m.flushed - 8, &mut buf) {
                        return fail("flushed-record-unreadable", format!("read_bytes just below the flushed offset failed: {e}"));
                    }
                }
            }
        }
        if let Some(s) = states {
            let mut h = vcommon::fnv(format!("{}|{}|{}|{}", m.flushed, m.write_off, m.compression, readers[1].is_some()).as_bytes());
            for r in &m.recs {
                h = h.wrapping_mul(31).wrapping_add(r.off ^ ((r.len as u64) << 20) ^ (r.header.first().copied().unwrap_or(0) as u64) << 50);
            }
            s.add_hash(h);
        }
    }
    None
}

fn diagnose(ops: &[Op], step: usize) -> &'static str {
    let prefix = &ops[..step];
    let failing = ops[step];
    let r = failing.reader();
    if prefix.iter().any(|o| matches!(o, Op::SetLenFirst | Op::SetLenLast)) && prefix.iter().any(|o| matches!(o, Op::AppendS | Op::AppendM | Op::AppendL)) {
        // was there an append after an effective truncation?
        let is_app = |o: &Op| matches!(o, Op::AppendS | Op::AppendM | Op::AppendL);
        for (i, o) in prefix.iter().enumerate() {
            if matches!(o, Op::SetLenFirst | Op::SetLenLast) && prefix[..i].iter().any(is_app) && prefix[i..].iter().any(is_app) {
                return "append-after-set_len";
            }
        }
    }
    if let Some(r) = r {
        let other_replace = prefix.iter().any(|o| matches!(o, Op::Replace(x) | Op::ReplaceFirst(x) if *x != r));
        if prefix.iter().any(|o| matches!(o, Op::ReplaceFirst(_))) && prefix.iter().any(|o| matches!(o, Op::AppendL)) {
            return "replace-in-other-window";
        }
        let seq_before = prefix.iter().any(|o| matches!(o, Op::ReadSeq(x, _) | Op::Iter(x, _) if *x == r));
        if other_replace && seq_before {
            return "cross-reader-replace";
        }
        if seq_before {
            return "reused-read-ahead";
        }
    }
    "other"
}

fn ops_json(ops: &[Op]) -> Value {
    json!(ops.iter().map(|o| o.name()).collect::<Vec<_>>())
}

fn valid(seq: &[Op]) -> bool {
    // reader 1 exists only after CloneReader
    let mut has1 = false;
    for o in seq {
        match o {
            Op::CloneReader => has1 = true,
            _ => {
                if o.reader() == Some(1) && !has1 {
                    return false;
                }
            }
        }
    }
    true
}

fn run_h<const H: usize>(ctx: &Ctx, dir: &Path, alpha: &[Op], depth: usize, label: &str, cap: Duration, stats: &Stats) -> bool {
    run_hp::<H>(ctx, dir, &[], alpha, depth, label, cap, stats)
}

/// Like `run_h`, but every enumerated sequence is executed behind the fixed `prefix` (a non-initial
/// start state).
#[allow(clippy::too_many_arguments)]
fn run_hp<const H: usize>(ctx: &Ctx, dir: &Path, prefix: &[Op], alpha: &[Op], depth: usize, label: &str, cap: Duration, stats: &Stats) -> bool {
    // enumerate all sequences of exactly `d` ops for d = 1..=depth whose last op is a reader op (shorter
    // sequences and sequences ending in a writer op are prefixes of those and are checked step by step).
    let n = alpha.len();
    let capped = AtomicBool::new(false);
    for d in 1..=depth {
        let total: u64 = (n as u64).pow(d as u32);
        // work items: the first (up to two) symbols are fixed per item to get enough parallel grains
        let fixed = d.min(2);
        let grains: Vec<u64> = (0..(n as u64).pow(fixed as u32)).collect();
        let per = total / grains.len() as u64;
        let order = vcommon::seeded_order(grains.len(), ctx.seed);
        let items: Vec<u64> = order.iter().map(|&i| grains[i]).collect();
        par_for_each(&items, |wi, &g| {
            let path = dir.join(format!("c18-{H}-{label}-{d}-{wi}.seg"));
            let mut seq = vec![alpha[0]; d];
            for idx in 0..per {
                if idx % 4096 == 0 && ctx.over(cap) {
                    capped.store(true, Ordering::Relaxed);
                    break;
                }
                // decode: grain gives the first `fixed` symbols, idx the rest
                let mut gg = g;
                for k in (0..fixed).rev() {
                    seq[k] = alpha[(gg % n as u64) as usize];
                    gg /= n as u64;
                }
                let mut ii = idx;
                for k in (fixed..d).rev() {
                    seq[k] = alpha[(ii % n as u64) as usize];
                    ii /= n as u64;
                }
                if !seq[d - 1].is_reader() || !valid(&seq) {
                    continue;
                }
                stats.sequences.fetch_add(1, Ordering::Relaxed);
                let seq: Vec<Op> = if prefix.is_empty() { seq.clone() } else { prefix.iter().chain(seq.iter()).copied().collect() };
                if let Some(f) = execute::<H>(&seq, &path, Some(&stats.states), Some(&stats.transitions)) {
                    let ops = &seq[..=f.step];
                    // determinism: replay the minimal prefix twice
                    let again = execute::<H>(ops, &path, None, None);
                    let again2 = execute::<H>(ops, &path, None, None);
                    let same = |a: &Option<Failure>| a.as_ref().map(|x| (x.kind.clone(), x.step)) == Some((f.kind.clone(), f.step));
                    if !same(&again) || !same(&again2) {
                        vcommon::machinery_fail(&format!("non-deterministic replay of {:?}", ops));
                    }
                    let cause = diagnose(&seq, f.step);
                    let key = format!("C18/{}/{}/H={}", f.kind, cause, H);
                    stats.outcomes.add(&key);
                    ctx.violation(&key, &format!("{} [ops {}]", f.detail, ops_json(ops)), json!({"H": H, "ops": ops_json(ops)}));
                } else {
                    stats.outcomes.add("ok");
                }
                if idx == per / 2 && wi < 4 {
                    stats.samples.push(json!({"H": H, "ops": ops_json(&seq)}));
                }
            }
            let _ = std::fs::remove_file(&path);
        });
        if capped.load(Ordering::Relaxed) {
            ctx.note(format!("C18 H={H} alphabet={label}: wall cap hit at depth {d}; depths below {d} were completed in full"));
            stats.completed_depths.lock().unwrap().push(format!("H={H}/{label}: complete to depth {}", d - 1));
            return false;
        }
    }
    stats.completed_depths.lock().unwrap().push(format!("H={H}/{label}: complete to depth {depth} ({} symbols{})", n, if prefix.is_empty() { String::new() } else { format!(", behind the {}-operation prefix {:?}", prefix.len(), prefix) }));
    true
}

struct Stats {
    sequences: AtomicU64,
    transitions: AtomicU64,
    states: Distinct,
    outcomes: Distinct,
    samples: Samples,
    completed_depths: std::sync::Mutex<Vec<String>>,
}

pub fn run(args: Args) {
    let mut ctx = Ctx::new("C18", args.tier, "model_checking");
    let dir = crate::scratch_dir("c18");
    let stats = Stats {
        sequences: AtomicU64::new(0),
        transitions: AtomicU64::new(0),
        states: Distinct::new(),
        outcomes: Distinct::new(),
        samples: Samples::new(12),
        completed_depths: Default::default(),
    };

    if let Some(rp) = &args.replay {
        ctx.replay_mode = true;
        let case = vcommon::load_replay(rp);
        let h = case["H"].as_u64().unwrap();
        let ops: Vec<Op> = case["ops"].as_array().unwrap().iter().map(|s| Op::parse(s.as_str().unwrap())).collect();
        let path = dir.join("replay.seg");
        let f = if h == 0 { execute::<0>(&ops, &path, None, None) } else { execute::<1>(&ops, &path, None, None) };
        match f {
            Some(f) => {
                let key = format!("C18/{}/{}/H={}", f.kind, diagnose(&ops, f.step), h);
                println!("replay: step {} ({:?}) fails: {}", f.step, ops[f.step], f.detail);
                ctx.violation(&key, &f.detail, case.clone());
            }
            None => println!("replay: sequence agrees with the model"),
        }
        let _ = std::fs::remove_dir_all(&dir);
        ctx.finish(json!({"states":1,"transitions":ops.len(),"traces_validated_against_impl":1,"samples":[case]}), vec![]);
    }

    let thorough = args.tier.is_thorough();
    let cap = if thorough { Duration::from_secs(1500) } else { Duration::from_secs(45) };
    let mut exhaustive = true;
    // H = 1 is what sierradb uses (confirmation byte); H = 0 has no header replacement.
    if thorough {
        exhaustive &= run_h::<1>(&ctx, &dir, &alphabet_mini(1), 8, "mini", cap, &stats);
        exhaustive &= run_h::<0>(&ctx, &dir, &alphabet_mini(0), 7, "mini", cap, &stats);
        exhaustive &= run_h::<1>(&ctx, &dir, &alphabet_two(), 7, "two-readers", cap, &stats);
        exhaustive &= run_h::<1>(&ctx, &dir, &alphabet(1, false), 5, "core", cap, &stats);
        exhaustive &= run_h::<1>(&ctx, &dir, &alphabet(1, true), 5, "full", cap, &stats);
        exhaustive &= run_h::<0>(&ctx, &dir, &alphabet(0, true), 4, "full", cap, &stats);
        exhaustive &= run_hp::<1>(&ctx, &dir, &WINDOWS_PREFIX, &alphabet_windows(), 7, "multi-window", cap, &stats);
    } else {
        exhaustive &= run_h::<1>(&ctx, &dir, &alphabet_mini(1), 6, "mini", cap, &stats);
        exhaustive &= run_h::<0>(&ctx, &dir, &alphabet_mini(0), 5, "mini", cap, &stats);
        exhaustive &= run_h::<1>(&ctx, &dir, &alphabet_two(), 6, "two-readers", cap, &stats);
        exhaustive &= run_h::<1>(&ctx, &dir, &alphabet(1, false), 4, "core", cap, &stats);
        exhaustive &= run_h::<1>(&ctx, &dir, &alphabet(1, true), 3, "full", cap, &stats);
        exhaustive &= run_hp::<1>(&ctx, &dir, &WINDOWS_PREFIX, &alphabet_windows(), 6, "multi-window", cap, &stats);
    }
    let _ = std::fs::remove_dir_all(&dir);
    let seqs = stats.sequences.load(Ordering::Relaxed);
    ctx.finish(
        json!({
            "states": stats.states.len(),
            "transitions": stats.transitions.load(Ordering::Relaxed),
            "traces_validated_against_impl": seqs,
            "samples": stats.samples.take(),
            "exhaustive": exhaustive,
            "sequences_executed": seqs,
            "distinct_observed_outcomes": stats.outcomes.len(),
            "bounds": stats.completed_depths.lock().unwrap().clone(),
            "alphabet_full_H1": alphabet(1, true).iter().map(|o| o.name()).collect::<Vec<_>>(),
            "alphabet_core_H1": alphabet(1, false).iter().map(|o| o.name()).collect::<Vec<_>>(),
            "alphabet_mini_H1": alphabet_mini(1).iter().map(|o| o.name()).collect::<Vec<_>>(),
            "alphabet_two_readers_H1": alphabet_two().iter().map(|o| o.name()).collect::<Vec<_>>(),
            "alphabet_multi_window_H1": alphabet_windows().iter().map(|o| o.name()).collect::<Vec<_>>(),
            "multi_window_prefix": WINDOWS_PREFIX.iter().map(|o| o.name()).collect::<Vec<_>>(),
            "rule": "all operation sequences up to the stated depth whose last op is a reader op (all other sequences are prefixes of those and are checked step by step); \
                     states = distinct reference-model states reached; every sequence is executed on the real Writer/Reader, so traces_validated = sequences",
        }),
        vec![
            "reader steps are placed between writer sub-steps separable from outside (append / flush_writer / sync / set_len); write(2) itself is not intercepted".into(),
            "one process, one writer; readers are long-lived and share the writer's FlushedOffset".into(),
        ],
    );
}
