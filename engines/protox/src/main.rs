//! protox — C10 / C11: explicit-state search of the replicated write path (stateright), with the
//! per-node transition code taken from the repository where it is a plain data structure, and a
//! conformance replay of model traces against the real replica-side actors.
mod conform;
#[allow(dead_code)]
#[path = "../../clusterx/src/cx.rs"]
mod cx;
mod model;

use std::collections::BTreeMap;
use std::sync::{Arc, Mutex};
use std::time::{Duration, Instant};

use model::{Act, Budget, Cfg, Msg, Proto, S};
use serde_json::{Value, json};
use stateright::{Checker, Model};
use vcommon::{Args, Ctx};

fn configs(thorough: bool) -> Vec<(&'static str, Cfg)> {
    let b = |drops, dups, crashes, views, catchups, timeouts| Budget { drops, dups, crashes, views, catchups, timeouts };
    let mut v = vec![
        // fault-free reorderings with catch-up, two and three writes
        ("3 nodes, 2 single-event writes, reordering + catch-up", Cfg { n: 3, tx_lens: vec![1, 1], max: b(0, 0, 0, 0, 1, 0), buffer_limit: 1000, submit_at: vec![], submit_plan: vec![], view_change_only: None, eager: vec![], catchup_mode: model::CatchupMode::CoordinatorSequence }),
        ("3 nodes, 2 writes (2+1 events), 1 view change, catch-up", Cfg { n: 3, tx_lens: vec![2, 1], max: b(0, 0, 0, 1, 1, 0), buffer_limit: 1000, submit_at: vec![], submit_plan: vec![], view_change_only: None, eager: vec![], catchup_mode: model::CatchupMode::CoordinatorSequence }),
        if thorough {
            ("3 nodes, 3 single-event writes, 1 view change, catch-up", Cfg { n: 3, tx_lens: vec![1, 1, 1], max: b(0, 0, 0, 1, 1, 0), buffer_limit: 1000, submit_at: vec![], submit_plan: vec![], view_change_only: None, eager: vec![], catchup_mode: model::CatchupMode::CoordinatorSequence })
        } else {
            ("3 nodes, 3 single-event writes submitted at node 0 or 1, 1 view change, catch-up", Cfg { n: 3, tx_lens: vec![1, 1, 1], max: b(0, 0, 0, 1, 1, 0), buffer_limit: 1000, submit_at: vec![0, 1], submit_plan: vec![], view_change_only: None, eager: vec![], catchup_mode: model::CatchupMode::CoordinatorSequence })
        },
        ("3 nodes, 2 writes, 1 drop, 1 duplicate, 1 timeout", Cfg { n: 3, tx_lens: vec![1, 1], max: b(1, 1, 0, 0, 1, 1), buffer_limit: 1000, submit_at: vec![], submit_plan: vec![], view_change_only: None, eager: vec![], catchup_mode: model::CatchupMode::CoordinatorSequence }),
        ("3 nodes, 2 writes, 1 crash/restart, 1 view change", Cfg { n: 3, tx_lens: vec![1, 1], max: b(0, 0, 1, 1, 1, 0), buffer_limit: 1000, submit_at: vec![], submit_plan: vec![], view_change_only: None, eager: vec![], catchup_mode: model::CatchupMode::CoordinatorSequence }),
        ("2 nodes, 2 writes, 1 view change, 1 timeout", Cfg { n: 2, tx_lens: vec![1, 2], max: b(0, 0, 0, 1, 1, 1), buffer_limit: 1000, submit_at: vec![], submit_plan: vec![], view_change_only: None, eager: vec![], catchup_mode: model::CatchupMode::CoordinatorSequence }),
    ];
    // the largest configuration last, so that it can use the rest of the budget
    let big = v.remove(2);
    v.push(big);
    if thorough {
        v.push(("3 nodes, 3 writes (1,2,1), 2 view changes, 1 crash, catch-up", Cfg { n: 3, tx_lens: vec![1, 2, 1], max: b(0, 0, 1, 2, 1, 0), buffer_limit: 1000, submit_at: vec![], submit_plan: vec![], view_change_only: None, eager: vec![], catchup_mode: model::CatchupMode::CoordinatorSequence }));
        v.push(("3 nodes, 3 writes, 1 drop, 1 duplicate, 1 view change, 1 timeout, catch-up", Cfg { n: 3, tx_lens: vec![1, 1, 1], max: b(1, 1, 0, 1, 1, 1), buffer_limit: 1000, submit_at: vec![], submit_plan: vec![], view_change_only: None, eager: vec![], catchup_mode: model::CatchupMode::CoordinatorSequence }));
        v.push(("3 nodes, writes T0 T1 T2 at node 0 and T3 at node 1, node 1 may lose sight of node 0, 1 catch-up", Cfg { n: 3, tx_lens: vec![1, 1, 1, 1], max: b(0, 0, 0, 1, 1, 0), buffer_limit: 1000, submit_at: vec![], submit_plan: vec![0, 0, 0, 1], view_change_only: Some((1, 0)), eager: vec![], catchup_mode: model::CatchupMode::CoordinatorSequence }));
        // five replicas (quorum 3): three writes coordinated by node 0, a fourth by node 1 from a divergent view
        v.push(("5 nodes (3 and 4 never lag), writes T0 T1 T2 at node 0 and T3 at node 1, node 1 may lose sight of node 0, 1 catch-up", Cfg { n: 5, tx_lens: vec![1, 1, 1, 1], max: b(0, 0, 0, 1, 1, 0), buffer_limit: 1000, submit_at: vec![], submit_plan: vec![0, 0, 0, 1], view_change_only: Some((1, 0)), eager: vec![3, 4], catchup_mode: model::CatchupMode::CoordinatorSequence }));
        v.push(("3 nodes, 3 writes, buffer of 1, 1 view change, 2 catch-ups", Cfg { n: 3, tx_lens: vec![1, 1, 1], max: b(0, 0, 0, 1, 2, 0), buffer_limit: 1, submit_at: vec![], submit_plan: vec![], view_change_only: None, eager: vec![], catchup_mode: model::CatchupMode::CoordinatorSequence }));
    }
    v
}

pub fn act_json(a: &Act) -> Value {
    serde_json::to_value(a).unwrap_or(Value::Null)
}

fn describe(a: &Act) -> String {
    match a {
        Act::Submit { tx, at } => format!("client submits T{tx} at node {at}"),
        Act::Deliver(m) => format!("deliver {}", msg(m)),
        Act::Drop(m) => format!("drop {}", msg(m)),
        Act::Dup(m) => format!("duplicate {}", msg(m)),
        Act::Timeout { node, tx } => format!("coordinator {node} times out on T{tx}"),
        Act::Crash(n) => format!("node {n} crashes"),
        Act::Restart(n) => format!("node {n} restarts"),
        Act::Suspect { node, peer } => format!("node {node} times out node {peer}"),
        Act::Learn { node, peer } => format!("node {node} hears from node {peer}"),
        Act::CatchUp(n) => format!("node {n}'s gap timer fires (catch-up request)"),
    }
}

fn msg(m: &Msg) -> String {
    match m {
        Msg::Forward { to, tx, hops } => format!("ExecuteTransaction(T{tx}) forwarded to node {to} (hop {hops})"),
        Msg::Replicate { to, coord, tx, first, .. } => format!("ReplicateWrite(T{tx} @ {first}) from coordinator {coord} to node {to}"),
        Msg::Reply { to, from, tx, ok } => format!("reply {} for T{tx} from node {from} to coordinator {to}", if *ok { "Ok" } else { "Err" }),
        Msg::Confirm { to, tx, first, count } => format!("ConfirmTransaction(T{tx} @ {first}, count {count}) to node {to}"),
        Msg::SyncReq { to, from, from_seq, to_seq } => format!("PartitionSyncRequest({from_seq}..={to_seq}) from node {from} to coordinator {to}"),
        Msg::SyncResp { to, commits } => format!("PartitionSyncResponse({:?}) to node {to}", commits.iter().map(|(t, f, c)| format!("T{t}@{f} count {c}")).collect::<Vec<_>>()),
    }
}

struct CfgResult {
    name: &'static str,
    unique: usize,
    generated: usize,
    max_depth: usize,
    done: bool,
    secs: f64,
    discoveries: Vec<(String, Vec<Act>, S)>,
    sometimes_missing: Vec<String>,
}

fn check_cfg(name: &'static str, cfg: Cfg, cap: Duration, visit: Option<Arc<Mutex<BTreeMap<conform::Projection, (S, &'static str)>>>>) -> CfgResult {
    let t0 = Instant::now();
    let m = Proto(cfg.clone());
    let mut b = m.checker().threads(vcommon::jobs()).timeout(cap);
    if let Some(set) = visit {
        let cfg2 = cfg.clone();
        b = b.visitor(move |path: stateright::Path<S, Act>| {
            let acts: Vec<(S, Option<Act>)> = path.into_vec();
            let last = acts.last().map(|x| x.0.clone());
            for p in conform::project(&cfg2, &acts) {
                // the first trace that shows a projection is kept as its witness
                set.lock().unwrap().entry(p).or_insert_with(|| (last.clone().unwrap(), name));
            }
        });
    }
    let c = b.spawn_bfs().join();
    let mut discoveries = Vec::new();
    let mut sometimes_missing = Vec::new();
    let model = Proto(cfg);
    for p in model.properties() {
        let d = c.discovery(p.name);
        match p.expectation {
            stateright::Expectation::Always | stateright::Expectation::Eventually => {
                if let Some(path) = d {
                    let last = path.last_state().clone();
                    discoveries.push((p.name.to_string(), path.into_actions(), last));
                }
            }
            stateright::Expectation::Sometimes => {
                if d.is_none() {
                    sometimes_missing.push(p.name.to_string());
                }
            }
        }
    }
    CfgResult { name, unique: c.unique_state_count(), generated: c.state_count(), max_depth: c.max_depth(), done: c.is_done() && t0.elapsed() < cap, secs: t0.elapsed().as_secs_f64(), discoveries, sometimes_missing }
}

fn main() {
    vcommon::install_quiet_panic_hook();
    let args: Args = vcommon::parse_args();
    let prop = args.property.clone();
    if prop != "C10" && prop != "C11" {
        vcommon::machinery_fail("protox serves C10 and C11");
    }
    let thorough = args.tier.is_thorough();
    let mut ctx = Ctx::new(&prop, args.tier, "model_checking");
    if let Some(path) = &args.replay {
        ctx.replay_mode = true;
        let case = vcommon::load_replay(path);
        replay(&ctx, &prop, &case);
        ctx.finish(json!({"replay": path.display().to_string()}), vec![]);
    }
    // model parameters that are measured on the real code rather than transcribed
    let catchup_mode = conform::probe_catchup_mode();
    // The quick tier searches the five-replica configuration as well when the measured catch-up rule is not the one
    // the three-replica configurations were sized for (appending at the coordinator's sequence): with any other rule
    // the smallest counterexample needs a quorum of 3 of 5, and on a tree with the usual rule the quick tier pays nothing.
    let widen_quick = !thorough && catchup_mode != model::CatchupMode::CoordinatorSequence;
    let cap_total = Duration::from_secs(if thorough { 1200 } else if widen_quick { 400 } else { 40 });
    let mut base = configs(thorough);
    if widen_quick {
        base.extend(configs(true).into_iter().filter(|(n, _)| n.starts_with("5 nodes")));
    }
    let cfgs: Vec<(&'static str, Cfg)> = base.into_iter().map(|(n, mut c)| { c.catchup_mode = catchup_mode; (n, c) }).collect();
    // debugging aid: VERIF_PROTOX_ONLY=<substring> restricts the run to matching configurations (the evidence then says so)
    let only = std::env::var("VERIF_PROTOX_ONLY").ok();
    let cfgs: Vec<(&'static str, Cfg)> = cfgs.into_iter().filter(|(n, _)| only.as_ref().map(|o| n.contains(o.as_str())).unwrap_or(true)).collect();
    let t_start = Instant::now();
    let projections: Arc<Mutex<BTreeMap<conform::Projection, (S, &'static str)>>> = Default::default();
    let mut rows = Vec::new();
    let (mut states, mut transitions) = (0usize, 0usize);
    let mut exhaustive = true;
    let mut determinism_checked = Vec::new();
    let wanted_prefix = if prop == "C10" { "C10" } else { "C11" };
    let mut counterexamples: Vec<(String, &'static str, Vec<Act>, S)> = Vec::new();
    for (name, cfg) in cfgs {
        // every configuration may use what is left of the total budget (most need a fraction of a second)
        let per = cap_total.saturating_sub(t_start.elapsed()).max(Duration::from_secs(3));
        let r = check_cfg(name, cfg.clone(), per, Some(projections.clone()));
        // determinism: the first configuration is searched twice and the counts compared
        if determinism_checked.is_empty() {
            let r2 = check_cfg(name, cfg.clone(), per, None);
            if r.done && r2.done && (r.unique != r2.unique || r.max_depth != r2.max_depth) {
                vcommon::machinery_fail(&format!("the model is not deterministic: {} vs {} unique states", r.unique, r2.unique));
            }
            determinism_checked.push(json!({"configuration": name, "unique_states_run_1": r.unique, "unique_states_run_2": r2.unique}));
        }
        states += r.unique;
        transitions += r.generated;
        exhaustive &= r.done;
        for s in &r.sometimes_missing {
            if r.done && (s == "some write acknowledged") {
                vcommon::machinery_fail(&format!("vacuous model: `{s}` is unreachable in configuration {name}"));
            }
        }
        rows.push(json!({"configuration": r.name, "unique_states": r.unique, "states_generated": r.generated, "max_depth": r.max_depth, "complete": r.done, "seconds": r.secs,
            "reachability_checks_not_reached": r.sometimes_missing, "counterexamples": r.discoveries.iter().map(|d| d.0.clone()).collect::<Vec<_>>()}));
        for (pname, acts, last) in r.discoveries {
            if pname.starts_with(wanted_prefix) {
                counterexamples.push((pname, r.name, acts, last));
            }
        }
    }
    // conformance: replay the per-node projections of the explored traces (and of every counterexample)
    // against the real replica-side actors
    let mut projs: Vec<(conform::Projection, conform::Witness)> = projections.lock().unwrap().iter().map(|(p, (last, cfgname))| (p.clone(), conform::Witness { cfg: cfg_by_name(cfgname, thorough), cfg_name: cfgname.to_string(), last: last.clone() })).collect();
    projs.sort_by_key(|(p, _)| (p.events.len(), p.clone()));
    let max_traces = if thorough { 4000 } else { 400 };
    let conf = conform::run(&ctx, &prop, &projs, max_traces);
    // counterexamples: a model violation is reported only if its replica-side projection is confirmed by the
    // real code (otherwise the model, not the repository, is wrong: machinery failure)
    for (pname, cfgname, acts, last) in &counterexamples {
        let what = if prop == "C10" { model::c10_violation(&Proto(cfg_by_name(cfgname, thorough)), last).or_else(|| model::prefix_violation(last)) } else { model::c11_violation(&Proto(cfg_by_name(cfgname, thorough)), last) };
        let trace: Vec<String> = acts.iter().map(describe).collect();
        let confirmed = conform::confirm_counterexample(&cfg_by_name(cfgname, thorough), acts);
        let key_kind = classify(acts);
        match confirmed {
            Ok(detail) => ctx.violation(
                &format!("{prop}/{key_kind}"),
                &format!("{} [{cfgname}] - {}; model trace ({} steps): {}; replayed against the real replicator: {detail}", what.clone().unwrap_or_default(), pname, trace.len(), trace.join(" -> ")),
                json!({"configuration": cfgname, "property": pname, "actions": acts.iter().map(act_json).collect::<Vec<_>>()}),
            ),
            Err(e) => vcommon::machinery_fail(&format!("a model counterexample for `{pname}` is not reproduced by the real code ({e}); trace: {}", trace.join(" -> "))),
        }
    }
    let coverage = json!({
        "states": states,
        "transitions": transitions,
        "traces_validated_against_impl": conf.replayed,
        "samples": rows.iter().take(3).cloned().chain(conf.samples.iter().cloned()).collect::<Vec<_>>(),
        "exhaustive": exhaustive,
        "configurations": rows,
        "determinism": determinism_checked,
        "restricted_to_configurations_matching": only,
        "model_parameters_measured_on_the_code": {"where_a_catch_up_response_appends_a_commit": catchup_mode},
        "quick_tier_widened_to_five_replicas_because_of_the_measured_rule": widen_quick,
        "conformance": {
            "distinct_per_node_projections_collected": projs.len(),
            "replayed_against_real_replicator": conf.replayed,
            "agreed": conf.agreed,
            "selection": format!("shortest first, at most {max_traces}"),
            "events_replayed": conf.events,
        },
        "bounds": "per configuration: nodes, client writes (events each), message drops, duplicates, crashes, membership-view changes, catch-up requests, coordinator timeouts - see `configuration` names; messages are delivered in any order",
        "what_states_are": "distinct global states (per node: up, incarnation, log with counts, replicator queue, confirmation state, membership view, coordinator bookkeeping; in-flight message multiset; client outcomes; fault budget used)",
    });
    ctx.finish(
        coverage,
        vec![
            "C10/C11 are decided on a model: a real multi-node run is impossible here (one ClusterActor per process, mDNS-only discovery)".into(),
            "bound to the code by (1) real OrderedQueue / PartitionConfirmationState / ExpectedVersion inside the transitions, (2) replay of the per-node projections of explored traces against the real PartitionReplicatorActor + Database, (3) every counterexample must be reproduced by the real replicator before it is reported".into(),
            "not bound: the reply counting inside transaction::run and the membership protocol (transcribed); a change confined to them is visible only through re-transcription".into(),
        ],
    )
}

fn cfg_by_name(name: &str, thorough: bool) -> Cfg {
    let mut c = configs(true).into_iter().chain(configs(thorough)).chain(configs(false)).find(|(n, _)| *n == name).map(|(_, c)| c).unwrap_or_else(|| vcommon::machinery_fail("unknown configuration"));
    c.catchup_mode = conform::probe_catchup_mode();
    c
}

/// Class signature of a counterexample (which mechanisms it needs).
fn classify(acts: &[Act]) -> String {
    let mut parts = Vec::new();
    if acts.iter().any(|a| matches!(a, Act::Deliver(Msg::SyncResp { .. }))) {
        parts.push("catch-up-response");
    }
    if acts.iter().any(|a| matches!(a, Act::Suspect { .. } | Act::Learn { .. })) {
        parts.push("divergent-view");
    }
    if acts.iter().any(|a| matches!(a, Act::Crash(_))) {
        parts.push("crash");
    }
    if acts.iter().any(|a| matches!(a, Act::Drop(_))) {
        parts.push("drop");
    }
    if acts.iter().any(|a| matches!(a, Act::Dup(_))) {
        parts.push("duplicate");
    }
    if acts.iter().any(|a| matches!(a, Act::Timeout { .. })) {
        parts.push("timeout");
    }
    if parts.is_empty() {
        parts.push("reordering-only");
    }
    parts.join("+")
}

fn replay(ctx: &Ctx, prop: &str, case: &Value) {
    if case.get("projection").is_some() {
        let pr: conform::Projection = serde_json::from_value(case["projection"].clone()).unwrap_or_else(|e| vcommon::machinery_fail(&format!("replay: projection does not parse: {e}")));
        // the ack lemma needs no witness; a deviation does
        let witness = match (case["witness_configuration"].as_str(), serde_json::from_value::<S>(case["witness_state"].clone())) {
            (Some(n), Ok(last)) => Some(conform::Witness { cfg: cfg_by_name(n, true), cfg_name: n.to_string(), last }),
            _ => {
                let cfg = Cfg { n: 3, tx_lens: pr.tx_lens.clone(), max: Budget::default(), buffer_limit: pr.buffer_limit, submit_at: vec![], submit_plan: vec![], view_change_only: None, eager: vec![], catchup_mode: conform::probe_catchup_mode() };
                let last = Proto(cfg.clone()).init_states().remove(0);
                Some(conform::Witness { cfg, cfg_name: "none".into(), last })
            }
        };
        return conform::replay_projection(ctx, prop, pr, witness);
    }
    let name = case["configuration"].as_str().unwrap_or("");
    let cfg = cfg_by_name(name, true);
    let acts: Vec<Act> = case["actions"].as_array().map(|a| a.iter().filter_map(|v| serde_json::from_value(v.clone()).ok()).collect()).unwrap_or_default();
    // re-execute the action list on the model
    let m = Proto(cfg.clone());
    let mut s = m.init_states().remove(0);
    for a in &acts {
        let mut en = Vec::new();
        m.actions(&s, &mut en);
        if !en.contains(a) {
            vcommon::machinery_fail(&format!("replay diverged: action {a:?} is not enabled"));
        }
        s = m.next_state(&s, a.clone()).unwrap_or_else(|| vcommon::machinery_fail("replay diverged: no next state"));
    }
    let what = if prop == "C10" { model::c10_violation(&m, &s).or_else(|| model::prefix_violation(&s)) } else { model::c11_violation(&m, &s) };
    match what {
        None => println!("replay: the recorded trace no longer violates the property on the model built from the current tree"),
        Some(w) => match conform::confirm_counterexample(&cfg, &acts) {
            Ok(detail) => ctx.violation(&format!("{prop}/{}", classify(&acts)), &format!("{w}; replayed against the real replicator: {detail}"), case.clone()),
            Err(e) => println!("replay: the model still violates the property ({w}) but the real replicator does not reproduce the trace: {e}"),
        },
    }
}
