//! Explicit-state model of the replicated write path of one partition (C10 / C11).
//!
//! Per-node transition code is the repository's own code wherever that code is a plain data structure:
//! the replicator's buffer is a real `OrderedQueue` (insert / pop / progress_to), the confirmation state
//! is a real `PartitionConfirmationState` (update_confirmation), expected sequences go through the real
//! `ExpectedVersion::{from_next_version, into_next_version}`.  Everything else is transcribed from
//! `write/{execute,transaction,replicate,confirm}.rs` and `TopologyManager::get_available_replicas`;
//! the transcription is kept honest by the conformance replay in `conform.rs`.

use std::collections::BTreeMap;
use std::sync::Arc;

use sierradb::database::ExpectedVersion;
use sierradb_cluster::confirmation::{AtomicWatermark, PartitionConfirmationState, UnconfirmedEventInfo};
use sierradb_cluster::write::ordered_queue::{OrderedQueue, OrderedValue};
use stateright::{Model, Property};

pub const MAXN: usize = 5;

#[derive(Clone, Debug, Hash, PartialEq, Eq, PartialOrd, Ord, serde::Serialize, serde::Deserialize)]
pub enum Msg {
    /// client write forwarded towards the node the sender believes to be primary
    Forward { to: u8, tx: u8, hops: u8 },
    Replicate { to: u8, coord: u8, coord_alive: u8, tx: u8, first: u8 },
    Reply { to: u8, from: u8, tx: u8, ok: bool },
    Confirm { to: u8, tx: u8, first: u8, count: u8 },
    SyncReq { to: u8, from: u8, from_seq: u8, to_seq: u8 },
    /// commits as (transaction, first sequence on the coordinator, confirmation count)
    SyncResp { to: u8, commits: Vec<(u8, u8, u8)> },
}

impl Msg {
    pub fn to(&self) -> u8 {
        match self {
            Msg::Forward { to, .. } | Msg::Replicate { to, .. } | Msg::Reply { to, .. } | Msg::Confirm { to, .. } | Msg::SyncReq { to, .. } | Msg::SyncResp { to, .. } => *to,
        }
    }
}

#[derive(Clone, Copy, Debug, Hash, PartialEq, Eq, PartialOrd, Ord, serde::Serialize, serde::Deserialize)]
pub struct Entry {
    pub tx: u8,
    pub k: u8,
    /// confirmation count of the event record
    pub count: u8,
    /// confirmation count of the transaction's commit record (multi-event transactions only; mirrored on
    /// every event of the transaction).  The coordinator's set_confirmations is given the offsets of the
    /// event records only (`AppendResult::offsets`), so there the commit record keeps the count it was
    /// appended with; a replica's ConfirmTransaction includes the commit record.  A catch-up response
    /// carries `CommittedEvents::confirmation_count()`, which for a multi-event transaction is the commit
    /// record's count.
    pub ccount: u8,
}

#[derive(Clone, Copy, Debug, Hash, PartialEq, Eq, PartialOrd, Ord, serde::Serialize, serde::Deserialize)]
pub struct Coord {
    pub first: u8,
    /// bitmask of nodes that hold the write (bit of the coordinator itself is set)
    pub acks: u8,
    /// replicas the write was sent to and that have not answered yet
    pub pending: u8,
    pub done: bool,
    pub count: u8,
}

#[derive(Clone, Debug, Hash, PartialEq, Eq, PartialOrd, Ord, serde::Serialize, serde::Deserialize)]
pub struct NodeS {
    pub up: bool,
    pub alive: u8,
    pub log: Vec<Entry>,
    /// the replicator's buffer: next expected sequence and buffered writes (first sequence -> (tx, coordinator))
    pub q_next: u8,
    pub q_map: BTreeMap<u8, (u8, u8)>,
    pub catching_up: bool,
    /// confirmation state: watermark and unconfirmed (version -> count)
    pub wm: u8,
    pub unconf: BTreeMap<u8, u8>,
    /// membership view: alive_since of each peer this node considers active
    pub view: [Option<u8>; MAXN],
    /// transactions this node coordinates
    pub coord: BTreeMap<u8, Coord>,
    /// (transaction, coordinator) of buffered writes skipped by `progress_to`; transient: filled and drained
    /// within one transition, always empty in a stored state
    #[serde(skip)]
    pub skipped_replies: Vec<(u8, u8)>,
}

#[derive(Clone, Copy, Debug, Hash, PartialEq, Eq, PartialOrd, Ord, serde::Serialize, serde::Deserialize)]
pub enum Client {
    NotSubmitted,
    Pending,
    Ok { coord: u8, first: u8 },
    Failed,
}

#[derive(Clone, Copy, Debug, Hash, PartialEq, Eq, PartialOrd, Ord, Default, serde::Serialize, serde::Deserialize)]
pub struct Budget {
    pub drops: u8,
    pub dups: u8,
    pub crashes: u8,
    pub views: u8,
    pub catchups: u8,
    pub timeouts: u8,
}

#[derive(Clone, Debug, Hash, PartialEq, Eq, serde::Serialize, serde::Deserialize)]
pub struct S {
    pub nodes: Vec<NodeS>,
    pub net: Vec<Msg>,
    pub client: Vec<Client>,
    pub used: Budget,
    pub clock: u8,
}

#[derive(Clone, Debug, Hash, PartialEq, Eq, PartialOrd, Ord, serde::Serialize, serde::Deserialize)]
pub enum Act {
    Submit { tx: u8, at: u8 },
    Deliver(Msg),
    Drop(Msg),
    Dup(Msg),
    /// the coordinator's 10 s timeout fires before quorum
    Timeout { node: u8, tx: u8 },
    Crash(u8),
    Restart(u8),
    /// `node` stops considering `peer` alive (heartbeat timeout)
    Suspect { node: u8, peer: u8 },
    /// `node` hears from `peer` (heartbeat / connect) and records its current incarnation
    Learn { node: u8, peer: u8 },
    /// the replicator's gap timer fires
    CatchUp(u8),
}

#[derive(Clone, Debug)]
pub struct Cfg {
    pub n: usize,
    /// number of events of each client transaction
    pub tx_lens: Vec<u8>,
    pub max: Budget,
    pub buffer_limit: usize,
    /// nodes at which clients may submit (empty = every node)
    pub submit_at: Vec<u8>,
    /// per transaction, the only node at which a client may submit it (empty = `submit_at` applies)
    pub submit_plan: Vec<u8>,
    /// if set, the only membership-view change explored is `node` losing / regaining sight of `peer`
    pub view_change_only: Option<(u8, u8)>,
    /// "eager" nodes: every message addressed to one of them, and every reply sent by one of them, is delivered at
    /// once (in a fixed order), inside the transition that produced it.  A restriction of the schedules explored
    /// (these nodes never lag), used to afford five replicas; they are not projected for the conformance replay.
    pub eager: Vec<u8>,
    /// measured on the real replicator at start-up (conform::probe_catchup_mode): where a catch-up response
    /// appends a commit
    pub catchup_mode: CatchupMode,
}

#[derive(Clone, Copy, Debug, PartialEq, Eq, serde::Serialize)]
pub enum CatchupMode {
    /// only at the sequence the commit has on the coordinator
    CoordinatorSequence,
    /// at the replicator's own next expected sequence (whatever the commit's sequence on the coordinator is)
    ReplicatorNext,
    /// wherever the replica's log ends
    Anywhere,
}

impl Cfg {
    pub fn q(&self) -> u8 {
        (self.n as u8) / 2 + 1
    }
}

// ---------------------------------------------------------------------------------------------
// real data structures behind the mirrored fields

#[derive(Clone, Debug)]
struct BW {
    tx: u8,
    coord: u8,
    /// how many senders wait for this write (duplicates merged)
    waiters: u8,
}

impl OrderedValue for BW {
    fn key_eq(&self, other: &Self) -> bool {
        // the code compares transaction ids
        self.tx == other.tx
    }
    fn merge(&mut self, new: Self) {
        self.waiters += new.waiters;
    }
}

fn real_queue(n: &NodeS, limit: usize) -> OrderedQueue<u64, BW> {
    let mut q = OrderedQueue::new(n.q_next as u64, limit);
    for (k, (tx, coord)) in &n.q_map {
        q.map.insert(*k as u64, BW { tx: *tx, coord: *coord, waiters: 1 });
    }
    q
}

fn store_queue(n: &mut NodeS, q: &OrderedQueue<u64, BW>) {
    n.q_next = *q.next() as u8;
    n.q_map = q.map.iter().map(|(k, v)| (*k as u8, (v.tx, v.coord))).collect();
}

/// Applies one confirmation report through the real `PartitionConfirmationState`.
fn real_confirm(n: &mut NodeS, version: u8, count: u8, rf: u8) {
    let mut st = PartitionConfirmationState {
        partition_id: 0,
        highest_version: 0,
        confirmed_watermark: Arc::new(AtomicWatermark::new(n.wm as u64)),
        unconfirmed_events: n.unconf.iter().map(|(v, c)| (*v as u64, UnconfirmedEventInfo { version: *v as u64, confirmation_count: *c, first_seen: 0, last_attempt: 0, attempts: 0 })).collect(),
    };
    st.update_confirmation(version as u64, count, rf);
    n.wm = st.confirmed_watermark.get() as u8;
    n.unconf = st.unconfirmed_events.iter().map(|(v, e)| (*v as u8, e.confirmation_count)).collect();
}

pub struct Proto(pub Cfg);

impl Proto {
    fn primary_in_view(&self, node: &NodeS) -> Option<u8> {
        // get_available_replicas: active members sorted by (alive_since, id)
        (0..self.0.n).filter_map(|p| node.view[p].map(|a| (a, p as u8))).min().map(|(_, p)| p)
    }
    fn available(&self, node: &NodeS) -> Vec<u8> {
        let mut v: Vec<(u8, u8)> = (0..self.0.n).filter_map(|p| node.view[p].map(|a| (a, p as u8))).collect();
        v.sort();
        v.into_iter().map(|(_, p)| p).collect()
    }
    fn len_of(&self, tx: u8) -> u8 {
        self.0.tx_lens[tx as usize]
    }
    fn has_tx(log: &[Entry], tx: u8) -> bool {
        log.iter().any(|e| e.tx == tx)
    }

    /// The coordinator path of `transaction::run`, up to the fan-out.
    fn coordinate(&self, s: &mut S, at: u8, tx: u8) {
        let q = self.0.q();
        let len = self.len_of(tx);
        let node = &mut s.nodes[at as usize];
        // database.append_events with the client's expectations (Any): next sequence of the local log;
        // a transaction already stored (duplicate client submission) is refused by its stream versions
        if Self::has_tx(&node.log, tx) {
            s.client[tx as usize] = Client::Failed;
            return;
        }
        let first = node.log.len() as u8;
        let count0 = if q <= 1 { 1 } else { 0 };
        for k in 0..len {
            node.log.push(Entry { tx, k, count: count0, ccount: count0 });
        }
        // the expected partition sequence sent to the replicas
        let expected = ExpectedVersion::from_next_version(first as u64);
        debug_assert_eq!(expected.into_next_version(), Some(first as u64));
        let replicas: Vec<u8> = self.available(node).into_iter().filter(|p| *p != at).collect();
        let mut pending = 0u8;
        for r in &replicas {
            pending |= 1 << r;
        }
        let alive = node.alive;
        node.coord.insert(tx, Coord { first, acks: 1 << at, pending, done: false, count: 0 });
        for r in replicas {
            s.net.push(Msg::Replicate { to: r, coord: at, coord_alive: alive, tx, first });
        }
        // single node / no replicas: quorum may already be reached
        self.maybe_finish(s, at, tx);
    }

    /// Quorum bookkeeping of `transaction::run` + the confirmation phase of `transaction::spawn`.
    fn maybe_finish(&self, s: &mut S, at: u8, tx: u8) {
        let q = self.0.q();
        let rf = self.0.n as u8;
        let len = self.len_of(tx);
        let Some(c) = s.nodes[at as usize].coord.get(&tx).copied() else { return };
        if c.done {
            return;
        }
        let confirmed = c.acks.count_ones() as u8;
        if confirmed >= q {
            // set_confirmations on the coordinator's own log, then the confirmation state, then the replicas
            let node = &mut s.nodes[at as usize];
            for e in node.log.iter_mut().skip(c.first as usize).take(len as usize) {
                e.count = confirmed;
            }
            for k in 0..len {
                real_confirm(node, c.first + k + 1, confirmed, rf);
            }
            node.coord.insert(tx, Coord { done: true, count: confirmed, ..c });
            for r in 0..self.0.n as u8 {
                if r != at && c.acks & (1 << r) != 0 {
                    s.net.push(Msg::Confirm { to: r, tx, first: c.first, count: confirmed });
                }
            }
            s.client[tx as usize] = Client::Ok { coord: at, first: c.first };
        } else if (confirmed + c.pending.count_ones() as u8) < q {
            // cannot reach quorum any more
            s.nodes[at as usize].coord.remove(&tx);
            if s.client[tx as usize] == Client::Pending {
                s.client[tx as usize] = Client::Failed;
            }
        }
    }

    /// `write_transaction` of the replicator: append iff the expected partition sequence matches.
    /// Returns Ok(first) or Err.
    fn replica_append(&self, node: &mut NodeS, tx: u8, expected_first: Option<u8>, count: u8) -> Result<u8, ()> {
        let rf = self.0.n as u8;
        let len = self.len_of(tx);
        // stream versions are exact: a transaction that is already stored cannot be stored again
        if Self::has_tx(&node.log, tx) {
            return Err(());
        }
        let next = node.log.len() as u8;
        if let Some(f) = expected_first {
            if f != next {
                return Err(()); // WrongExpectedSequence
            }
        }
        for k in 0..len {
            node.log.push(Entry { tx, k, count, ccount: count });
        }
        // progress_to(last + 1) on the real queue; skipped entries are answered with an error
        let mut q = real_queue(node, self.0.buffer_limit);
        let skipped = q.progress_to((next + len) as u64);
        store_queue(node, &q);
        node.skipped_replies = skipped.into_iter().map(|(_, v)| (v.tx, v.coord)).collect();
        for k in 0..len {
            real_confirm(node, next + k + 1, count, rf);
        }
        Ok(next)
    }
}

// the field lives on NodeS but is transient: it is always empty between transitions
impl NodeS {
    fn drain_skipped(&mut self, net: &mut Vec<Msg>, me: u8) {
        for (tx, coord) in std::mem::take(&mut self.skipped_replies) {
            net.push(Msg::Reply { to: coord, from: me, tx, ok: false });
        }
    }
}

impl Model for Proto {
    type State = S;
    type Action = Act;

    fn init_states(&self) -> Vec<S> {
        let n = self.0.n;
        let mut nodes = Vec::new();
        for i in 0..n {
            let mut view = [None; MAXN];
            for (p, slot) in view.iter_mut().enumerate().take(n) {
                *slot = Some(p as u8); // everybody knows everybody; alive_since = node index (node 0 is the oldest)
            }
            nodes.push(NodeS { up: true, alive: i as u8, log: vec![], q_next: 0, q_map: BTreeMap::new(), catching_up: false, wm: 0, unconf: BTreeMap::new(), view, coord: BTreeMap::new(), skipped_replies: vec![] });
        }
        vec![S { nodes, net: vec![], client: vec![Client::NotSubmitted; self.0.tx_lens.len()], used: Budget::default(), clock: n as u8 }]
    }

    fn actions(&self, s: &S, out: &mut Vec<Act>) {
        let m = &self.0.max;
        // client submissions: in transaction order (tx k+1 only after tx k was submitted) at any live node
        if let Some(tx) = s.client.iter().position(|c| *c == Client::NotSubmitted) {
            for at in 0..self.0.n as u8 {
                let allowed = match self.0.submit_plan.get(tx) {
                    Some(only) => *only == at,
                    None => self.0.submit_at.is_empty() || self.0.submit_at.contains(&at),
                };
                if s.nodes[at as usize].up && allowed {
                    out.push(Act::Submit { tx: tx as u8, at });
                }
            }
        }
        let mut seen: Vec<&Msg> = Vec::new();
        for msg in &s.net {
            if seen.contains(&msg) {
                continue;
            }
            seen.push(msg);
            out.push(Act::Deliver(msg.clone()));
            if s.used.drops < m.drops {
                out.push(Act::Drop(msg.clone()));
            }
            if s.used.dups < m.dups && matches!(msg, Msg::Replicate { .. } | Msg::Confirm { .. }) {
                out.push(Act::Dup(msg.clone()));
            }
        }
        for (i, node) in s.nodes.iter().enumerate() {
            let i = i as u8;
            if node.up {
                if s.used.timeouts < m.timeouts {
                    for (tx, c) in &node.coord {
                        if !c.done {
                            out.push(Act::Timeout { node: i, tx: *tx });
                        }
                    }
                }
                if s.used.crashes < m.crashes {
                    out.push(Act::Crash(i));
                }
                if s.used.views < m.views {
                    for p in 0..self.0.n as u8 {
                        if matches!(self.0.view_change_only, Some(only) if only != (i, p)) {
                            continue;
                        }
                        if p != i {
                            if node.view[p as usize].is_some() {
                                out.push(Act::Suspect { node: i, peer: p });
                            }
                            let peer = &s.nodes[p as usize];
                            if peer.up && node.view[p as usize] != Some(peer.alive) {
                                out.push(Act::Learn { node: i, peer: p });
                            }
                        }
                    }
                }
                if s.used.catchups < m.catchups && !node.catching_up {
                    if let Some((oldest, _)) = node.q_map.iter().next() {
                        if *oldest > node.q_next {
                            out.push(Act::CatchUp(i));
                        }
                    }
                }
            } else {
                out.push(Act::Restart(i));
            }
        }
    }

    fn properties(&self) -> Vec<Property<Self>> {
        vec![
            Property::always("C10 at most one quorum-confirmed transaction per sequence", |m, s| c10_violation(m, s).is_none()),
            Property::always("C10b confirmed prefixes agree", |_, s: &S| prefix_violation(s).is_none()),
            Property::always("C11 acknowledged writes are stored on a quorum", |m, s| c11_violation(m, s).is_none()),
            Property::sometimes("some write acknowledged", |_, s: &S| s.client.iter().any(|c| matches!(c, Client::Ok { .. }))),
            Property::sometimes("some write failed", |_, s: &S| s.client.iter().any(|c| matches!(c, Client::Failed))),
            Property::sometimes("some write buffered out of order", |_, s: &S| s.nodes.iter().any(|n| !n.q_map.is_empty())),
            Property::sometimes("some catch-up applied", |_, s: &S| s.used.catchups > 0 && s.nodes.iter().any(|n| n.log.iter().any(|e| e.count >= 2) && n.coord.is_empty())),
        ]
    }

    fn next_state(&self, s: &S, a: Act) -> Option<S> {
        let mut s = self.step(s, a)?;
        if !self.0.eager.is_empty() {
            loop {
                let eager = &self.0.eager;
                let Some(m) = s.net.iter().find(|m| eager.contains(&m.to()) || matches!(m, Msg::Reply { from, .. } if eager.contains(from))).cloned() else { break };
                s = self.step(&s, Act::Deliver(m))?;
            }
        }
        Some(s)
    }
}

impl Proto {
    /// One transition (without the eager deliveries).
    fn step(&self, s: &S, a: Act) -> Option<S> {
        let mut s = s.clone();
        let q = self.0.q();
        let rf = self.0.n as u8;
        match a {
            Act::Submit { tx, at } => {
                s.client[tx as usize] = Client::Pending;
                self.route(&mut s, at, tx, 0);
            }
            Act::Drop(m) => {
                remove_one(&mut s.net, &m)?;
                s.used.drops += 1;
                if let Msg::Reply { to, from, tx, .. } = m {
                    // a lost reply is a replica that never answers
                    let _ = (to, from, tx);
                }
            }
            Act::Dup(m) => {
                s.net.push(m);
                s.used.dups += 1;
            }
            Act::Timeout { node, tx } => {
                s.used.timeouts += 1;
                s.nodes[node as usize].coord.remove(&tx);
                if s.client[tx as usize] == Client::Pending {
                    s.client[tx as usize] = Client::Failed;
                }
            }
            Act::Crash(i) => {
                s.used.crashes += 1;
                let node = &mut s.nodes[i as usize];
                node.up = false;
                node.q_map.clear();
                node.catching_up = false;
                // clients of writes this node was coordinating never hear back
                let lost: Vec<u8> = node.coord.iter().filter(|(_, c)| !c.done).map(|(t, _)| *t).collect();
                node.coord.clear();
                for t in lost {
                    if s.client[t as usize] == Client::Pending {
                        s.client[t as usize] = Client::Failed;
                    }
                }
            }
            Act::Restart(i) => {
                s.clock += 1;
                let clock = s.clock;
                let n = self.0.n;
                let node = &mut s.nodes[i as usize];
                node.up = true;
                node.alive = clock;
                node.q_next = node.log.len() as u8;
                // confirmation state re-derived from the on-disk counts (initialize)
                node.wm = 0;
                node.unconf.clear();
                let entries: Vec<(u8, u8)> = node.log.iter().enumerate().map(|(i, e)| (i as u8 + 1, e.count)).collect();
                for (v, c) in entries {
                    real_confirm(node, v, c, rf);
                }
                node.view = [None; MAXN];
                node.view[i as usize] = Some(clock);
                let _ = n;
            }
            Act::Suspect { node, peer } => {
                s.used.views += 1;
                s.nodes[node as usize].view[peer as usize] = None;
            }
            Act::Learn { node, peer } => {
                s.used.views += 1;
                let a = s.nodes[peer as usize].alive;
                s.nodes[node as usize].view[peer as usize] = Some(a);
            }
            Act::CatchUp(i) => {
                s.used.catchups += 1;
                let node = &mut s.nodes[i as usize];
                let (oldest, (_, coord)) = node.q_map.iter().next().map(|(k, v)| (*k, *v))?;
                node.catching_up = true;
                let from_seq = node.q_next;
                s.net.push(Msg::SyncReq { to: coord, from: i, from_seq, to_seq: oldest - 1 });
            }
            Act::Deliver(m) => {
                remove_one(&mut s.net, &m)?;
                let to = m.to();
                if !s.nodes[to as usize].up {
                    // connection refused: a coordinator waiting for this replica learns of the failure
                    if let Msg::Replicate { coord, tx, .. } = m {
                        s.net.push(Msg::Reply { to: coord, from: to, tx, ok: false });
                    }
                    s.net.sort();
                    return Some(s);
                }
                match m {
                    Msg::Forward { to, tx, hops } => self.route(&mut s, to, tx, hops),
                    Msg::Replicate { to, coord, coord_alive, tx, first } => {
                        let node = &mut s.nodes[to as usize];
                        // ClusterActor::handle(ReplicateWrite): sender must be an available replica in my view, not stale
                        let ok_sender = match node.view[coord as usize] {
                            None => false,
                            Some(known) => coord_alive >= known,
                        };
                        if !ok_sender {
                            s.net.push(Msg::Reply { to: coord, from: to, tx, ok: false });
                        } else {
                            // buffer_write on the real queue
                            let mut rq = real_queue(node, self.0.buffer_limit);
                            let key = ExpectedVersion::from_next_version(first as u64).into_next_version().unwrap();
                            match rq.insert(key, BW { tx, coord, waiters: 1 }) {
                                Err(_) => {
                                    // conflict / stale / full: the sender is answered with an error
                                    store_queue(node, &rq);
                                    s.net.push(Msg::Reply { to: coord, from: to, tx, ok: false });
                                }
                                Ok(res) => {
                                    let evicted = res.evicted.map(|(_, v)| (v.tx, v.coord));
                                    let mut next_write = res.next;
                                    if next_write.is_none() {
                                        next_write = rq.pop();
                                    }
                                    store_queue(node, &rq);
                                    if let Some((etx, ecoord)) = evicted {
                                        s.net.push(Msg::Reply { to: ecoord, from: to, tx: etx, ok: false });
                                    }
                                    // write loop
                                    let mut cur = next_write;
                                    while let Some(w) = cur.take() {
                                        let node = &mut s.nodes[to as usize];
                                        let exp_first = node.q_next; // key of the popped entry == next expected
                                        let count0 = if q <= 1 { 1 } else { 0 };
                                        let r = self.replica_append(node, w.tx, Some(exp_first), count0);
                                        node.drain_skipped(&mut s.net, to);
                                        for _ in 0..w.waiters.max(1) {
                                            s.net.push(Msg::Reply { to: w.coord, from: to, tx: w.tx, ok: r.is_ok() });
                                        }
                                        if r.is_err() {
                                            break;
                                        }
                                        let node = &mut s.nodes[to as usize];
                                        let mut rq = real_queue(node, self.0.buffer_limit);
                                        cur = rq.pop();
                                        store_queue(node, &rq);
                                    }
                                }
                            }
                        }
                    }
                    Msg::Reply { to, from, tx, ok } => {
                        let Some(mut c) = s.nodes[to as usize].coord.get(&tx).copied() else {
                            s.net.sort();
                            return Some(s); // nobody waits any more (timed out / crashed / failed)
                        };
                        c.pending &= !(1 << from);
                        if ok {
                            if c.done {
                                // a late success after quorum: the count sent to that replica grows, the coordinator's disk does not
                                c.count += 1;
                                c.acks |= 1 << from;
                                s.nodes[to as usize].coord.insert(tx, c);
                                s.net.push(Msg::Confirm { to: from, tx, first: c.first, count: c.count });
                            } else {
                                c.acks |= 1 << from;
                                s.nodes[to as usize].coord.insert(tx, c);
                                self.maybe_finish(&mut s, to, tx);
                            }
                        } else {
                            s.nodes[to as usize].coord.insert(tx, c);
                            self.maybe_finish(&mut s, to, tx);
                        }
                    }
                    Msg::Confirm { to, tx, first, count } => {
                        // ConfirmTransaction: look the transaction up by its first event id
                        let len = self.len_of(tx);
                        let node = &mut s.nodes[to as usize];
                        if let Some(pos) = node.log.iter().position(|e| e.tx == tx && e.k == 0) {
                            // multi-event transactions validate their partition sequences, single events do not
                            if len == 1 || pos as u8 == first {
                                for e in node.log.iter_mut().skip(pos).take(len as usize) {
                                    e.count = count;
                                    e.ccount = count;
                                }
                                // UpdateConfirmation with the coordinator's versions
                                for k in 0..len {
                                    real_confirm(node, first + k + 1, count, rf);
                                }
                            }
                        }
                    }
                    Msg::SyncReq { to, from, from_seq, to_seq } => {
                        // PartitionSyncRequest: commits from `from_seq`, below the coordinator's watermark, first sequence <= to_seq
                        let node = &s.nodes[to as usize];
                        let mut commits = Vec::new();
                        let mut i = from_seq as usize;
                        // an iterator started inside a transaction yields that transaction from its first event
                        while i > 0 && i < node.log.len() && node.log[i].k > 0 {
                            i -= 1;
                        }
                        while i < node.log.len() {
                            let e = node.log[i];
                            let len = self.len_of(e.tx) as usize;
                            if i as u8 >= node.wm {
                                break;
                            }
                            if i as u8 > to_seq {
                                break;
                            }
                            commits.push((e.tx, i as u8, if len > 1 { e.ccount } else { e.count }));
                            i += len;
                        }
                        s.net.push(Msg::SyncResp { to: from, commits });
                    }
                    Msg::SyncResp { to, commits } => {
                        let node = &mut s.nodes[to as usize];
                        node.catching_up = false;
                        let mut failed = false;
                        for (tx, first, count) in commits {
                            let node = &mut s.nodes[to as usize];
                            // appended with the coordinator's count - at the sequence the commit has on the coordinator, or
                            // wherever the log ends, whichever the real replicator was measured to do
                            let expected = match self.0.catchup_mode {
                                CatchupMode::CoordinatorSequence => Some(first),
                                CatchupMode::ReplicatorNext => Some(node.q_next),
                                CatchupMode::Anywhere => None,
                            };
                            let r = self.replica_append(node, tx, expected, count);
                            node.drain_skipped(&mut s.net, to);
                            if r.is_err() {
                                failed = true;
                                break;
                            }
                        }
                        if !failed {
                            loop {
                                let node = &mut s.nodes[to as usize];
                                let mut rq = real_queue(node, self.0.buffer_limit);
                                let Some(w) = rq.pop() else { break };
                                store_queue(node, &rq);
                                let exp_first = node.q_next;
                                let count0 = if q <= 1 { 1 } else { 0 };
                                let r = self.replica_append(node, w.tx, Some(exp_first), count0);
                                node.drain_skipped(&mut s.net, to);
                                s.net.push(Msg::Reply { to: w.coord, from: to, tx: w.tx, ok: r.is_ok() });
                                if r.is_err() {
                                    break;
                                }
                            }
                        }
                    }
                }
            }
        }
        s.net.sort();
        Some(s)
    }

}

impl Proto {
    /// resolve_write_destination + route_write_request
    fn route(&self, s: &mut S, at: u8, tx: u8, hops: u8) {
        let q = self.0.q();
        if hops > 3 {
            s.client[tx as usize] = Client::Failed;
            return;
        }
        let node = &s.nodes[at as usize];
        let avail = self.available(node);
        if (avail.len() as u8) < q {
            s.client[tx as usize] = Client::Failed;
            return;
        }
        let primary = self.primary_in_view(node).unwrap();
        if primary == at {
            self.coordinate(s, at, tx);
        } else {
            s.net.push(Msg::Forward { to: primary, tx, hops: hops + 1 });
        }
    }
}

fn remove_one(net: &mut Vec<Msg>, m: &Msg) -> Option<()> {
    let i = net.iter().position(|x| x == m)?;
    net.remove(i);
    Some(())
}

pub fn c10_violation(m: &Proto, s: &S) -> Option<String> {
    let q = m.0.q();
    for i in 0..s.nodes.len() {
        for j in i + 1..s.nodes.len() {
            let (a, b) = (&s.nodes[i].log, &s.nodes[j].log);
            for seq in 0..a.len().min(b.len()) {
                if a[seq].count >= q && b[seq].count >= q && (a[seq].tx, a[seq].k) != (b[seq].tx, b[seq].k) {
                    return Some(format!("sequence {seq}: node {i} holds event {} of T{} with count {}, node {j} holds event {} of T{} with count {}", a[seq].k, a[seq].tx, a[seq].count, b[seq].k, b[seq].tx, b[seq].count));
                }
            }
        }
    }
    None
}

pub fn prefix_violation(s: &S) -> Option<String> {
    for i in 0..s.nodes.len() {
        for j in i + 1..s.nodes.len() {
            let (a, b) = (&s.nodes[i], &s.nodes[j]);
            let w = a.wm.min(b.wm) as usize;
            for seq in 0..w.min(a.log.len()).min(b.log.len()) {
                if (a.log[seq].tx, a.log[seq].k) != (b.log[seq].tx, b.log[seq].k) {
                    return Some(format!("below both watermarks ({} and {}) sequence {seq} differs between node {i} (T{}) and node {j} (T{})", a.wm, b.wm, a.log[seq].tx, b.log[seq].tx));
                }
            }
        }
    }
    None
}

pub fn c11_violation(m: &Proto, s: &S) -> Option<String> {
    let q = m.0.q();
    for (tx, c) in s.client.iter().enumerate() {
        if let Client::Ok { coord, first } = c {
            let len = m.0.tx_lens[tx] as usize;
            let holds = |n: &NodeS| (0..len).all(|k| n.log.get(*first as usize + k).map(|e| e.tx == tx as u8 && e.k == k as u8).unwrap_or(false));
            let stored = s.nodes.iter().filter(|n| holds(n)).count() as u8;
            if stored < q {
                return Some(format!("T{tx} was acknowledged at sequence {first} but only {stored} node(s) store it there (quorum {q})"));
            }
            let cn = &s.nodes[*coord as usize];
            if !holds(cn) || cn.log[*first as usize].count < q {
                return Some(format!("T{tx} was acknowledged but its coordinator (node {coord}) does not hold it at sequence {first} with a quorum count"));
            }
        }
    }
    None
}
