//! Conformance of the model with the code: the replica-side events of a model trace, projected onto one
//! node, are replayed against a real `PartitionReplicatorActor` + `Database` + `ConfirmationActor`, and
//! the resulting partition log (transaction order, and the confirmation counts of entries written by a
//! catch-up response) must equal the model's.

use std::collections::{BTreeMap, HashSet};
use std::time::Duration;

use kameo::actor::{ActorRef, Spawn};
use serde_json::{Value, json};
use sierradb::IterDirection;
use sierradb::bucket::segment::CommittedEvents;
use sierradb::database::{Database, ExpectedVersion};
use sierradb_cluster::confirmation::actor::ConfirmationActor;
use sierradb_cluster::write::replicate::{PartitionReplicatorActor, PartitionReplicatorActorArgs, ReplicateWrite, VerifSyncResponse};
use vcommon::Ctx;

use crate::cx::*;
use crate::model::{Act, Cfg, Msg, S};

#[derive(Clone, Debug, PartialEq, Eq, PartialOrd, Ord, Hash, serde::Serialize, serde::Deserialize)]
pub enum REv {
    /// a ReplicateWrite that passed the ClusterActor's sender checks and reached the replicator
    Replicate { tx: u8, first: u8 },
    /// the node coordinated this write itself: a direct append to its database
    LocalAppend { tx: u8 },
    /// catch-up response: (transaction, first sequence on the coordinator, confirmation count)
    SyncResp { commits: Vec<(u8, u8, u8)> },
    Restart,
}

#[derive(Clone, Debug, PartialEq, Eq, PartialOrd, Ord, Hash, serde::Serialize, serde::Deserialize)]
pub struct Projection {
    pub tx_lens: Vec<u8>,
    pub buffer_limit: usize,
    pub node: u8,
    pub events: Vec<REv>,
    /// the model's log of that node afterwards: (transaction, event index)
    pub log: Vec<(u8, u8)>,
    /// counts the model expects on entries written by catch-up responses: transaction -> count
    pub catchup_counts: Vec<(u8, u8)>,
    /// whether, in the model, a buffered write sits exactly at the replicator's next expected sequence at the end
    pub entry_at_next: bool,
}

/// Per-node projections of one model path.
pub fn project(cfg: &Cfg, path: &[(S, Option<Act>)]) -> Vec<Projection> {
    let n = cfg.n;
    let mut evs: Vec<Vec<REv>> = vec![vec![]; n];
    let mut catchup: Vec<BTreeMap<u8, u8>> = vec![BTreeMap::new(); n];
    for w in path.windows(2) {
        let (pre, act) = (&w[0].0, w[0].1.as_ref());
        let post = &w[1].0;
        let Some(act) = act else { continue };
        match act {
            Act::Submit { .. } | Act::Deliver(Msg::Forward { .. }) => {
                // did some node append the write locally in this step?
                for i in 0..n {
                    if post.nodes[i].coord.len() > pre.nodes[i].coord.len() || (post.nodes[i].log.len() > pre.nodes[i].log.len() && !matches!(act, Act::Deliver(Msg::Replicate { .. }))) {
                        if let Some(e) = post.nodes[i].log.last() {
                            if post.nodes[i].log.len() > pre.nodes[i].log.len() {
                                evs[i].push(REv::LocalAppend { tx: e.tx });
                            }
                        }
                    }
                }
            }
            Act::Deliver(Msg::Replicate { to, coord, coord_alive, tx, first }) => {
                let node = &pre.nodes[*to as usize];
                let accepted = node.up && matches!(node.view[*coord as usize], Some(known) if *coord_alive >= known);
                if accepted {
                    evs[*to as usize].push(REv::Replicate { tx: *tx, first: *first });
                }
            }
            Act::Deliver(Msg::SyncResp { to, commits }) => {
                if pre.nodes[*to as usize].up {
                    evs[*to as usize].push(REv::SyncResp { commits: commits.clone() });
                    let before: HashSet<u8> = pre.nodes[*to as usize].log.iter().map(|e| e.tx).collect();
                    for (t, _, c) in commits {
                        if !before.contains(t) && post.nodes[*to as usize].log.iter().any(|e| e.tx == *t) {
                            catchup[*to as usize].insert(*t, *c);
                        }
                    }
                }
            }
            Act::Restart(i) => evs[*i as usize].push(REv::Restart),
            _ => {}
        }
    }
    let last = &path.last().unwrap().0;
    (0..n)
        .filter(|i| !evs[*i].is_empty() && !cfg.eager.contains(&(*i as u8)))
        .map(|i| Projection {
            tx_lens: cfg.tx_lens.clone(),
            buffer_limit: cfg.buffer_limit,
            node: i as u8,
            events: evs[i].clone(),
            log: last.nodes[i].log.iter().map(|e| (e.tx, e.k)).collect(),
            catchup_counts: catchup[i].iter().map(|(t, c)| (*t, *c)).collect(),
            entry_at_next: last.nodes[i].q_map.contains_key(&last.nodes[i].q_next),
        })
        .collect()
}

/// What the real replica did: its log as (transaction, event index), the confirmation count per transaction, and
/// the answer to every replicated write, in the order of the projection's Replicate events:
/// (transaction, assigned first sequence, Some(Ok(first sequence in the reply)) | Some(Err) | None = unanswered)
pub struct RealRun(pub Vec<(u8, u8)>, pub BTreeMap<u8, u8>, pub Vec<(u8, u8, Option<Result<u64, String>>)>);

pub struct ConformResult {
    pub replayed: u64,
    pub agreed: u64,
    pub events: u64,
    pub samples: Vec<Value>,
}

struct Real {
    rt: tokio::runtime::Runtime,
    node: Node,
    db_c: (std::path::PathBuf, Database),
    db_r: (std::path::PathBuf, Database),
    conf_r: ActorRef<ConfirmationActor>,
    next_partition: u16,
}

const PARTS: u16 = 2048;

thread_local! {
    static REAL: std::cell::RefCell<Option<Real>> = const { std::cell::RefCell::new(None) };
}

fn tx_for(p: u16, lens: &[u8], tx: u8, first: Option<u8>, count: u8) -> sierradb::database::Transaction {
    let len = lens[tx as usize] as u64;
    let evs: Vec<EvSpec> = (0..len)
        .map(|k| EvSpec { id: eid(p, 100 * (tx as u64 + 1) + k), stream: format!("m{p}t{tx}"), exp: ExpectedVersion::from_next_version(k), name: "E".into(), timestamp: 1_700_000_000_000_000_000 + k, payload: vec![tx] })
        .collect();
    let exp = match first {
        Some(f) => ExpectedVersion::from_next_version(f as u64),
        None => ExpectedVersion::Any,
    };
    make_tx(p, txid(p, tx as u64, len == 1), &evs, exp, count)
}

async fn replay_one(r: &mut Real, pr: &Projection) -> Result<RealRun, String> {
    if r.next_partition >= PARTS - 1 {
        return Err("out of partitions".into());
    }
    let p = r.next_partition;
    r.next_partition += 1;
    let db_r = r.db_r.1.clone();
    let db_c = r.db_c.1.clone();
    let coordinator_ref = r.node.cluster.clone().into_remote_ref().await;
    let spawn_rep = |db: Database, conf: ActorRef<ConfirmationActor>, limit: usize| {
        PartitionReplicatorActor::spawn(PartitionReplicatorActorArgs { partition_id: p, database: db, confirmation_ref: conf, buffer_size: limit, buffer_timeout: Duration::from_secs(3600), catchup_timeout: Duration::from_secs(3600) })
    };
    let mut rep = spawn_rep(db_r.clone(), r.conf_r.clone(), pr.buffer_limit);
    rep.wait_for_startup().await;
    // source copies of the transactions on the coordinator's database (for catch-up responses)
    let mut source: BTreeMap<u8, (uuid::Uuid, smallvec::SmallVec<[u64; 4]>)> = BTreeMap::new();
    let mut pend = Vec::new();
    // mailbox barrier: an empty catch-up response (FIFO mailbox, handlers run to completion).  It also pops a
    // buffered write that sits exactly at the next expected sequence, which the model does not do at that
    // point; projections that end in such a state use a short sleep instead.
    for (i, ev) in pr.events.iter().enumerate() {
        match ev {
            REv::Replicate { tx, first } => {
                let t = tx_for(p, &pr.tx_lens, *tx, Some(*first), 0);
                let pr2 = rep.ask(ReplicateWrite { coordinator_ref: coordinator_ref.clone(), coordinator_alive_since: 0, transaction: t }).enqueue().await.map_err(|e| e.to_string())?;
                pend.push((*tx, *first, pr2));
            }
            REv::LocalAppend { tx } => {
                // everything sent so far must have been processed before the local append hits the database
                let _ = rep.ask(VerifSyncResponse(vec![])).await;
                let t = tx_for(p, &pr.tx_lens, *tx, None, 0);
                db_r.append_events(t).await.map_err(|e| format!("local append of T{tx} failed on the real database: {e}"))?;
            }
            REv::SyncResp { commits } => {
                let mut list: Vec<CommittedEvents> = Vec::new();
                for (tx, first, count) in commits {
                    if !source.contains_key(tx) {
                        let t = tx_for(p, &pr.tx_lens, *tx, None, 0);
                        let id = t.transaction_id();
                        let a = db_c.append_events(t).await.map_err(|e| format!("source append: {e}"))?;
                        source.insert(*tx, (id, a.offsets.clone()));
                    }
                    // a real record of that transaction, with the sequence and the counts it has on the model's
                    // coordinator (a catch-up response is data: what matters is what it says)
                    let mut c = db_c.read_transaction(p, eid(p, 100 * (*tx as u64 + 1))).await.map_err(|e| e.to_string())?.ok_or("source transaction not readable")?;
                    match &mut c {
                        CommittedEvents::Single(e) => {
                            e.partition_sequence = *first as u64;
                            e.confirmation_count = *count;
                        }
                        CommittedEvents::Transaction { events, commit } => {
                            for (k, e) in events.iter_mut().enumerate() {
                                e.partition_sequence = *first as u64 + k as u64;
                                e.confirmation_count = *count;
                            }
                            commit.confirmation_count = *count;
                        }
                    }
                    list.push(c);
                }
                rep.tell(VerifSyncResponse(list)).await.map_err(|e| e.to_string())?;
            }
            REv::Restart => {
                let _ = rep.ask(VerifSyncResponse(vec![])).await;
                let _ = rep.stop_gracefully().await;
                rep.wait_for_shutdown().await;
                rep = spawn_rep(db_r.clone(), r.conf_r.clone(), pr.buffer_limit);
                rep.wait_for_startup().await;
            }
        }
        let _ = i;
    }
    if pr.entry_at_next {
        tokio::time::sleep(Duration::from_millis(40)).await;
    } else {
        let _ = tokio::time::timeout(Duration::from_secs(20), rep.ask(VerifSyncResponse(vec![]))).await;
    }
    let mut replies = Vec::new();
    for (tx, first, p) in pend {
        let r = match tokio::time::timeout(Duration::from_millis(40), p).await {
            Err(_) => None,
            Ok(Ok(a)) => Some(Ok(a.first_partition_sequence)),
            Ok(Err(e)) => Some(Err(e.to_string())),
        };
        replies.push((tx, first, r));
    }
    // the real log
    let mut log = Vec::new();
    let mut counts = BTreeMap::new();
    let mut it = db_r.read_partition(p, 0, IterDirection::Forward).await.map_err(|e| e.to_string())?;
    while let Some(batch) = it.next_batch(50).await.map_err(|e| e.to_string())? {
        for c in batch {
            for e in c {
                // which model transaction is this?
                let tx = (0..pr.tx_lens.len() as u8).find(|t| (0..pr.tx_lens[*t as usize] as u64).any(|k| eid(p, 100 * (*t as u64 + 1) + k) == e.event_id));
                let Some(tx) = tx else { return Err("unknown event in the real log".into()) };
                let k = (0..pr.tx_lens[tx as usize] as u64).position(|k| eid(p, 100 * (tx as u64 + 1) + k) == e.event_id).unwrap() as u8;
                log.push((tx, k));
                counts.insert(tx, e.confirmation_count);
            }
        }
    }
    let _ = rep.stop_gracefully().await;
    Ok(RealRun(log, counts, replies))
}

fn with_real<T>(f: impl FnOnce(&mut Real) -> T) -> T {
    REAL.with(|cell| {
        let mut cell = cell.borrow_mut();
        if cell.is_none() {
            let rt = rt(4);
            let dc = scratch("pxc");
            let dr = scratch("pxr");
            let (node, c, r, conf) = rt.block_on(async {
                let c = open_db(&dc);
                let r = open_db(&dr);
                let node = Node::start(c.clone(), 1, PARTS).await;
                let conf = ConfirmationActor::new(r.clone(), 3, HashSet::from_iter(0..PARTS)).await.unwrap_or_else(|e| vcommon::machinery_fail(&format!("ConfirmationActor: {e}")));
                (node, c, r, ConfirmationActor::spawn(conf))
            });
            *cell = Some(Real { rt, node, db_c: (dc, c), db_r: (dr, r), conf_r: conf, next_partition: 0 });
        }
        f(cell.as_mut().unwrap())
    })
}

fn replay_blocking(pr: &Projection) -> Result<RealRun, String> {
    with_real(|r| {
        if r.next_partition >= PARTS - 2 {
            // new database generation
            let rt = std::mem::replace(&mut r.rt, tokio::runtime::Builder::new_current_thread().build().unwrap());
            rt.block_on(async {
                let _ = r.conf_r.stop_gracefully().await;
                for (dir, db) in [(&r.db_c.0, &r.db_c.1), (&r.db_r.0, &r.db_r.1)] {
                    let _ = tokio::time::timeout(Duration::from_secs(10), db.shutdown()).await;
                    let _ = std::fs::remove_dir_all(dir);
                }
                let dc = scratch("pxc");
                let dr = scratch("pxr");
                let c = open_db(&dc);
                let d = open_db(&dr);
                r.node.reset(c.clone()).await;
                let conf = ConfirmationActor::new(d.clone(), 3, HashSet::from_iter(0..PARTS)).await.unwrap_or_else(|e| vcommon::machinery_fail(&format!("ConfirmationActor: {e}")));
                r.conf_r = ConfirmationActor::spawn(conf);
                r.db_c = (dc, c);
                r.db_r = (dr, d);
                r.next_partition = 0;
            });
            r.rt = rt;
        }
        let rt = std::mem::replace(&mut r.rt, tokio::runtime::Builder::new_current_thread().build().unwrap());
        let out = rt.block_on(replay_one(r, pr));
        r.rt = rt;
        out
    })
}

fn compare(pr: &Projection, real: &RealRun) -> Result<(), String> {
    if real.0 != pr.log {
        return Err(format!("the real replica's log is {:?}, the model's is {:?}", real.0, pr.log));
    }
    for (tx, c) in &pr.catchup_counts {
        if real.1.get(tx) != Some(c) {
            return Err(format!("T{tx} written by a catch-up response carries count {:?} on the real replica, {c} in the model", real.1.get(tx)));
        }
    }
    Ok(())
}

/// A model state in which one explored trace ends and that contains the projection's node: used to judge a
/// deviation of the real replica from the model (below).
pub struct Witness {
    pub cfg: Cfg,
    pub cfg_name: String,
    pub last: S,
}

/// The real replica ended in a log the model does not predict for these events.  Put the real log in place of
/// the model's for that node in the state the witness trace ends in (the other nodes as the model has them;
/// confirmations the model delivered to this node follow the transaction to wherever it sits) and evaluate the
/// property there.
fn judge_deviation(prop: &str, pr: &Projection, real: &RealRun, w: &Witness) -> Option<String> {
    let mut s = w.last.clone();
    let node = pr.node as usize;
    let model_log = s.nodes[node].log.clone();
    s.nodes[node].log = real
        .0
        .iter()
        .map(|(tx, k)| {
            let from_model = model_log.iter().find(|e| e.tx == *tx && e.k == *k);
            let c = from_model.map(|e| e.count).unwrap_or_else(|| real.1.get(tx).copied().unwrap_or(0));
            crate::model::Entry { tx: *tx, k: *k, count: c, ccount: from_model.map(|e| e.ccount).unwrap_or(c) }
        })
        .collect();
    let m = crate::model::Proto(w.cfg.clone());
    if prop == "C10" { crate::model::c10_violation(&m, &s) } else { crate::model::c11_violation(&m, &s) }
}

pub fn run(ctx: &Ctx, prop: &str, projs: &[(Projection, Witness)], max: usize) -> ConformResult {
    let mut res = ConformResult { replayed: 0, agreed: 0, events: 0, samples: vec![] };
    let mut deviations: Vec<String> = Vec::new();
    for (pr, witness) in projs.iter().take(max) {
        res.replayed += 1;
        res.events += pr.events.len() as u64;
        match replay_blocking(pr) {
            Err(e) => vcommon::machinery_fail(&format!("conformance replay failed to run: {e} ({pr:?})")),
            Ok(real) => {
              // what a coordinator counts towards its quorum: a replica that answers Ok must store the write at the
              // sequence it was assigned (C11: an acknowledged write is stored on a quorum - the coordinator's own
              // copy plus the replicas that said Ok)
              if prop == "C11" {
                  for (tx, first, r) in &real.2 {
                      if let Some(Ok(at)) = r {
                          let stored_at = real.0.iter().position(|(t, k)| t == tx && *k == 0);
                          if *at != *first as u64 || stored_at != Some(*first as usize) {
                              ctx.violation(
                                  "C11/replica-acknowledges-a-write-it-does-not-store",
                                  &format!("the real replicator answered Ok (first sequence {at}) to ReplicateWrite(T{tx} @ {first}) but its log afterwards is {:?} (T{tx} {}); its coordinator counts this replica towards the quorum and acknowledges the client although fewer replicas store the write. Events node {} sees in a model trace: {:?} (transaction lengths {:?})", real.0, match stored_at { Some(p) => format!("sits at {p}"), None => "is not stored".into() }, pr.node, pr.events, pr.tx_lens),
                                  json!({"projection": serde_json::to_value(pr).unwrap(), "real_log": format!("{:?}", real.0)}),
                              );
                          }
                      }
                  }
              }
              match compare(pr, &real) {
                Ok(()) => {
                    res.agreed += 1;
                    if res.samples.len() < 3 && pr.events.len() >= 3 {
                        res.samples.push(json!({"conformance_trace": format!("{:?}", pr.events), "node": pr.node, "log": format!("{:?}", real.0)}));
                    }
                }
                Err(e) => {
                    // The real replica does something the model does not.  If what it does breaks the property in
                    // the global state the trace ends in, that is a finding about the repository; otherwise the
                    // model misrepresents the code in a way the property cannot see from here - a defect of the
                    // machinery, reported after all projections were looked at.
                    match judge_deviation(prop, pr, &real, witness) {
                        Some(v) => {
                            let kind = if pr.events.iter().any(|e| matches!(e, REv::SyncResp { .. })) { "with-catch-up-response" } else if pr.events.iter().any(|e| matches!(e, REv::Restart)) { "with-restart" } else { "replication-only" };
                            ctx.violation(
                                &format!("{prop}/real-replica-deviates-from-model/{kind}"),
                                &format!("{v}; the real replicator, given the events node {} sees in a model trace ({:?}; transaction lengths {:?}), ends with the log {:?} (counts {:?}) where the model has {:?}; the other nodes as in the state that trace ends in", pr.node, pr.events, pr.tx_lens, real.0, real.1, pr.log),
                                json!({"projection": serde_json::to_value(pr).unwrap(), "witness_configuration": witness.cfg_name, "witness_state": serde_json::to_value(&witness.last).unwrap(), "real_log": format!("{:?}", real.0), "model_log": format!("{:?}", pr.log)}),
                            );
                        }
                        None => deviations.push(format!("{e}; events {:?} (node {}, transaction lengths {:?})", pr.events, pr.node, pr.tx_lens)),
                    }
                }
              }
            }
        }
    }
    if let Some(d) = deviations.first() {
        if ctx.violation_count() == 0 {
            vcommon::machinery_fail(&format!("model and code disagree on {} replica-side trace(s), none of which breaks {prop} where it ends; first: {d}", deviations.len()));
        }
    }
    res
}

/// Replays every node's projection of a counterexample; Ok(description of the real logs) if the real
/// replicas end in the model's logs.
pub fn confirm_counterexample(cfg: &Cfg, acts: &[Act]) -> Result<String, String> {
    use stateright::Model;
    let m = crate::model::Proto(cfg.clone());
    let mut s = m.init_states().remove(0);
    let mut path: Vec<(S, Option<Act>)> = Vec::new();
    for a in acts {
        path.push((s.clone(), Some(a.clone())));
        s = m.next_state(&s, a.clone()).ok_or("trace not executable on the model")?;
    }
    path.push((s.clone(), None));
    let mut parts = Vec::new();
    for pr in project(cfg, &path) {
        let real = replay_blocking(&pr)?;
        compare(&pr, &real)?;
        parts.push(format!(
            "node {}: events {:?} -> real log {:?} with counts {:?}",
            pr.node,
            pr.events,
            real.0.iter().map(|(t, k)| format!("T{t}.{k}")).collect::<Vec<_>>(),
            real.1
        ));
    }
    Ok(parts.join("; "))
}

/// Measures on the real replicator where a catch-up response appends a commit.
/// Probe 1: replica log [X] by a local append (the replicator's next expected sequence stays 0), catch-up
/// response carrying T with sequence 0: refused by both sequence-checking variants, appended by "anywhere".
/// Probe 2: replica log [X] by a replicated write at sequence 0 (next expected sequence 1), catch-up response
/// carrying T with sequence 0: refused only if the commit's sequence on the coordinator is what is checked.
pub fn probe_catchup_mode() -> crate::model::CatchupMode {
    use crate::model::CatchupMode;
    static CACHE: std::sync::OnceLock<CatchupMode> = std::sync::OnceLock::new();
    *CACHE.get_or_init(|| {
        let run = |first_event: REv| {
            let pr = Projection { tx_lens: vec![1, 1], buffer_limit: 1000, node: 0, events: vec![first_event, REv::SyncResp { commits: vec![(0, 0, 2)] }], log: vec![], catchup_counts: vec![], entry_at_next: false };
            match replay_blocking(&pr) {
                Ok(RealRun(log, _, _)) => log.iter().any(|(t, _)| *t == 0),
                Err(e) => vcommon::machinery_fail(&format!("probe of the catch-up semantics failed: {e}")),
            }
        };
        let after_local = run(REv::LocalAppend { tx: 1 });
        let after_replicated = run(REv::Replicate { tx: 1, first: 0 });
        match (after_local, after_replicated) {
            (false, false) => CatchupMode::CoordinatorSequence,
            (false, true) => CatchupMode::ReplicatorNext,
            (true, true) => CatchupMode::Anywhere,
            (true, false) => vcommon::machinery_fail("probe of the catch-up semantics: appended after a local append but refused after a replicated one - no known semantics"),
        }
    })
}

/// `--replay` of a violation found by the conformance replay: the one projection again.
pub fn replay_projection(ctx: &Ctx, prop: &str, pr: Projection, witness: Option<Witness>) {
    let w = witness.unwrap_or_else(|| vcommon::machinery_fail("replay file of a deviation carries no witness state"));
    let r = run(ctx, prop, &[(pr, w)], 1);
    if ctx.violation_count() == 0 {
        println!("replay: the real replica agrees with the model on this trace ({} of {} replayed agreed)", r.agreed, r.replayed);
    }
}
