//! The reference reading of the documented command grammar (the `# Syntax` doc-comments of
//! `crates/sierradb-server/src/request/*.rs` and the README command reference), written as a boring
//! hand-rolled recogniser that shares nothing with the combinator parsers under test.
//!
//! Conventions fixed here (and nowhere else):
//! * keywords compare ASCII-case-insensitively;
//! * a positional string slot (stream id, event name) never accepts a token that is a top-level
//!   keyword of the same command ("keywords are never taken as stream ids or other positional
//!   values");
//! * an optional clause may appear at most once; option lists (`EAPPEND`, `EMAPPEND` events, `ESCAN`,
//!   `EPSCAN`) accept their clauses in any order; the subscription commands use the documented order
//!   selector, FROM, WINDOW;
//! * numbers are plain decimal digit strings that fit the slot's type.

use std::collections::{HashMap, HashSet};

use sierradb::StreamId;
use sierradb_cluster::subscription::{FromSequences, FromVersions, SubscriptionMatcher};
use uuid::Uuid;

#[derive(Debug, Clone, PartialEq, Eq)]
pub enum Exp {
    Any,
    Exists,
    Empty,
    Exact(u64),
}

#[derive(Debug, Clone, PartialEq, Eq)]
pub enum Rv {
    Start,
    End,
    Val(u64),
}

#[derive(Debug, Clone, PartialEq, Eq)]
pub enum PSel {
    Id(u16),
    Key(Uuid),
}

#[derive(Debug, Clone, PartialEq, Eq)]
pub struct Ev {
    pub stream: String,
    pub name: String,
    pub event_id: Option<Uuid>,
    pub exp: Exp,
    pub ts: Option<u64>,
    pub payload: Vec<u8>,
    pub metadata: Vec<u8>,
}

#[derive(Debug, Clone, PartialEq, Eq)]
pub enum Denot {
    EAppend { ev: Ev, pk: Option<Uuid> },
    EMAppend { pk: Uuid, events: Vec<Ev> },
    EGet(Uuid),
    EAck(Uuid, u64),
    EPSeq(PSel),
    ESVer(String, Option<Uuid>),
    EScan { stream: String, start: Rv, end: Rv, pk: Option<Uuid>, count: Option<u64> },
    EPScan { part: PSel, start: Rv, end: Rv, count: Option<u64> },
    Sub { matcher: SubscriptionMatcher, window: Option<u64> },
    Hello(i64),
    Ping,
}

#[derive(Debug, Clone, Copy, PartialEq, Eq, Hash, PartialOrd, Ord)]
pub enum Cmd {
    EAppend,
    EMAppend,
    EGet,
    EAck,
    EPSeq,
    ESVer,
    EScan,
    EPScan,
    ESub,
    EPSub,
    Hello,
    Ping,
}

impl Cmd {
    pub const ALL: [Cmd; 12] =
        [Cmd::EAppend, Cmd::EMAppend, Cmd::EGet, Cmd::EAck, Cmd::EPSeq, Cmd::ESVer, Cmd::EScan, Cmd::EPScan, Cmd::ESub, Cmd::EPSub, Cmd::Hello, Cmd::Ping];
    pub fn name(self) -> &'static str {
        match self {
            Cmd::EAppend => "EAPPEND",
            Cmd::EMAppend => "EMAPPEND",
            Cmd::EGet => "EGET",
            Cmd::EAck => "EACK",
            Cmd::EPSeq => "EPSEQ",
            Cmd::ESVer => "ESVER",
            Cmd::EScan => "ESCAN",
            Cmd::EPScan => "EPSCAN",
            Cmd::ESub => "ESUB",
            Cmd::EPSub => "EPSUB",
            Cmd::Hello => "HELLO",
            Cmd::Ping => "PING",
        }
    }
    pub fn from_name(s: &str) -> Option<Cmd> {
        Cmd::ALL.iter().copied().find(|c| c.name().eq_ignore_ascii_case(s))
    }
    /// Top-level keywords of the command's grammar (reserved in positional string slots).
    pub fn keywords(self) -> &'static [&'static str] {
        match self {
            Cmd::EAppend => &["EVENT_ID", "PARTITION_KEY", "EXPECTED_VERSION", "TIMESTAMP", "PAYLOAD", "METADATA"],
            Cmd::EMAppend => &["EVENT_ID", "EXPECTED_VERSION", "TIMESTAMP", "PAYLOAD", "METADATA"],
            Cmd::ESVer => &["PARTITION_KEY"],
            Cmd::EScan => &["PARTITION_KEY", "COUNT"],
            Cmd::EPScan => &["COUNT"],
            Cmd::ESub => &["PARTITION_KEY", "FROM", "WINDOW"],
            Cmd::EPSub => &["FROM", "WINDOW"],
            _ => &[],
        }
    }
    /// Every keyword that can appear anywhere in the command (for substitution mutations).
    pub fn all_words(self) -> Vec<&'static str> {
        let mut v: Vec<&'static str> = self.keywords().to_vec();
        match self {
            Cmd::ESub => v.extend(["LATEST", "MAP"]),
            Cmd::EPSub => v.extend(["LATEST", "MAP", "DEFAULT"]),
            Cmd::EAppend | Cmd::EMAppend => v.extend(["ANY", "EXISTS", "EMPTY"]),
            _ => {}
        }
        v
    }
}

type R<T> = Result<T, String>;

struct P<'a> {
    cmd: Cmd,
    t: &'a [Vec<u8>],
    i: usize,
}

fn is_kw(tok: &[u8], kw: &str) -> bool {
    tok.eq_ignore_ascii_case(kw.as_bytes())
}

fn digits<T: std::str::FromStr>(tok: &[u8]) -> Option<T> {
    if tok.is_empty() || !tok.iter().all(|b| b.is_ascii_digit()) {
        return None;
    }
    std::str::from_utf8(tok).ok()?.parse().ok()
}

impl<'a> P<'a> {
    fn peek(&self) -> Option<&'a [u8]> {
        self.t.get(self.i).map(|v| v.as_slice())
    }
    fn next(&mut self, what: &str) -> R<&'a [u8]> {
        let t = self.peek().ok_or_else(|| format!("missing {what}"))?;
        self.i += 1;
        Ok(t)
    }
    fn peek_kw(&self, kw: &str) -> bool {
        self.peek().map(|t| is_kw(t, kw)).unwrap_or(false)
    }
    fn reserved(&self, tok: &[u8]) -> bool {
        self.cmd.keywords().iter().any(|k| is_kw(tok, k))
    }
    fn string(&mut self, what: &str) -> R<String> {
        let t = self.next(what)?;
        let s = std::str::from_utf8(t).map_err(|_| format!("{what} is not utf-8"))?;
        if self.reserved(t) {
            return Err(format!("keyword {s} in the {what} position"));
        }
        Ok(s.to_string())
    }
    fn stream_id(&mut self) -> R<String> {
        let s = self.string("stream id")?;
        if s.is_empty() || s.len() > 64 || s.contains('\0') {
            return Err("invalid stream id".into());
        }
        Ok(s)
    }
    fn u64(&mut self, what: &str) -> R<u64> {
        let t = self.next(what)?;
        digits::<u64>(t).ok_or_else(|| format!("invalid {what}"))
    }
    fn uuid(&mut self, what: &str) -> R<Uuid> {
        let t = self.next(what)?;
        parse_uuid(t).ok_or_else(|| format!("invalid {what}"))
    }
    fn data(&mut self, what: &str) -> R<Vec<u8>> {
        Ok(self.next(what)?.to_vec())
    }
    fn exp(&mut self) -> R<Exp> {
        let t = self.next("expected version")?;
        if let Some(n) = digits::<u64>(t) {
            return Ok(Exp::Exact(n));
        }
        if is_kw(t, "ANY") {
            Ok(Exp::Any)
        } else if is_kw(t, "EXISTS") {
            Ok(Exp::Exists)
        } else if is_kw(t, "EMPTY") {
            Ok(Exp::Empty)
        } else {
            Err("invalid expected version".into())
        }
    }
    fn rv(&mut self) -> R<Rv> {
        let t = self.next("range value")?;
        if t == b"-" {
            Ok(Rv::Start)
        } else if t == b"+" {
            Ok(Rv::End)
        } else {
            digits::<u64>(t).map(Rv::Val).ok_or_else(|| "invalid range value".into())
        }
    }
    fn psel(&mut self) -> R<PSel> {
        let t = self.next("partition")?;
        if let Some(u) = parse_uuid(t) {
            return Ok(PSel::Key(u));
        }
        digits::<u16>(t).map(PSel::Id).ok_or_else(|| "invalid partition selector".into())
    }
    fn end(&self) -> R<()> {
        if self.i == self.t.len() { Ok(()) } else { Err("trailing tokens".into()) }
    }
    fn window(&mut self) -> R<Option<u64>> {
        if self.peek_kw("WINDOW") {
            self.i += 1;
            let n = self.u64("window size")?;
            if n < 1 {
                return Err("window must be at least 1".into());
            }
            return Ok(Some(n));
        }
        Ok(None)
    }

    /// `{opt}*` of EAPPEND / EMAPPEND events.
    fn event_opts(&mut self, ev: &mut Ev, mut pk: Option<&mut Option<Uuid>>) -> R<()> {
        let mut seen: HashSet<&'static str> = HashSet::new();
        loop {
            let Some(t) = self.peek() else { return Ok(()) };
            let Some(kw) = self.cmd.keywords().iter().copied().find(|k| is_kw(t, k)) else { return Ok(()) };
            self.i += 1;
            if !seen.insert(kw) {
                return Err(format!("{kw} given twice"));
            }
            match kw {
                "EVENT_ID" => ev.event_id = Some(self.uuid("event id")?),
                "PARTITION_KEY" => match pk.as_deref_mut() {
                    Some(p) => *p = Some(self.uuid("partition key")?),
                    None => return Err("PARTITION_KEY not part of this grammar".into()),
                },
                "EXPECTED_VERSION" => ev.exp = self.exp()?,
                "TIMESTAMP" => ev.ts = Some(self.u64("timestamp")?),
                "PAYLOAD" => ev.payload = self.data("payload")?,
                "METADATA" => ev.metadata = self.data("metadata")?,
                _ => unreachable!(),
            }
        }
    }

    fn event(&mut self, pk: Option<&mut Option<Uuid>>) -> R<Ev> {
        let stream = self.stream_id()?;
        let name = self.string("event name")?;
        let mut ev = Ev { stream, name, event_id: None, exp: Exp::Any, ts: None, payload: vec![], metadata: vec![] };
        self.event_opts(&mut ev, pk)?;
        Ok(ev)
    }
}

pub fn parse_uuid(t: &[u8]) -> Option<Uuid> {
    // the hyphenated 8-4-4-4-12 form only (what the documentation shows and the client emits)
    let s = std::str::from_utf8(t).ok()?;
    if s.len() != 36 {
        return None;
    }
    for (i, c) in s.bytes().enumerate() {
        let dash = matches!(i, 8 | 13 | 18 | 23);
        if dash != (c == b'-') || (!dash && !c.is_ascii_hexdigit()) {
            return None;
        }
    }
    Uuid::parse_str(s).ok()
}

pub fn default_pk(stream: &str) -> Uuid {
    Uuid::new_v5(&sierradb::id::NAMESPACE_PARTITION_KEY, stream.as_bytes())
}

fn sid(s: &str) -> StreamId {
    StreamId::new(s).expect("validated by the reference")
}

pub fn parse(cmd: Cmd, toks: &[Vec<u8>]) -> R<Denot> {
    let mut p = P { cmd, t: toks, i: 0 };
    let d = match cmd {
        Cmd::Ping => Denot::Ping,
        Cmd::Hello => {
            let t = p.next("protocol version")?;
            let neg = t.first() == Some(&b'-');
            let body = if neg { &t[1..] } else { t };
            let n: i64 = digits::<u64>(body).and_then(|v| if neg { (v as i128).checked_neg().and_then(|x| i64::try_from(x).ok()) } else { i64::try_from(v).ok() }).ok_or("invalid protocol version")?;
            Denot::Hello(n)
        }
        Cmd::EGet => Denot::EGet(p.uuid("event id")?),
        Cmd::EAck => {
            let id = p.uuid("subscription id")?;
            Denot::EAck(id, p.u64("cursor")?)
        }
        Cmd::EPSeq => Denot::EPSeq(p.psel()?),
        Cmd::ESVer => {
            let s = p.stream_id()?;
            let mut pk = None;
            if p.peek_kw("PARTITION_KEY") {
                p.i += 1;
                pk = Some(p.uuid("partition key")?);
            }
            Denot::ESVer(s, pk)
        }
        Cmd::EScan => {
            let stream = p.stream_id()?;
            let start = p.rv()?;
            let end = p.rv()?;
            let (mut pk, mut count) = (None, None);
            loop {
                if p.peek_kw("PARTITION_KEY") {
                    p.i += 1;
                    if pk.is_some() {
                        return Err("PARTITION_KEY given twice".into());
                    }
                    pk = Some(p.uuid("partition key")?);
                } else if p.peek_kw("COUNT") {
                    p.i += 1;
                    if count.is_some() {
                        return Err("COUNT given twice".into());
                    }
                    count = Some(p.u64("count")?);
                } else {
                    break;
                }
            }
            Denot::EScan { stream, start, end, pk, count }
        }
        Cmd::EPScan => {
            let part = p.psel()?;
            let start = p.rv()?;
            let end = p.rv()?;
            let mut count = None;
            while p.peek_kw("COUNT") {
                p.i += 1;
                if count.is_some() {
                    return Err("COUNT given twice".into());
                }
                count = Some(p.u64("count")?);
            }
            Denot::EPScan { part, start, end, count }
        }
        Cmd::EAppend => {
            let mut pk = None;
            let ev = p.event(Some(&mut pk))?;
            Denot::EAppend { ev, pk }
        }
        Cmd::EMAppend => {
            let pk = p.uuid("partition key")?;
            let mut events = Vec::new();
            loop {
                events.push(p.event(None)?);
                if p.peek().is_none() {
                    break;
                }
            }
            Denot::EMAppend { pk, events }
        }
        Cmd::ESub => {
            // (<stream_id> [PARTITION_KEY <pk>])+ [FROM LATEST | FROM <n> | FROM MAP (<s>=<v>)+] [WINDOW <n>]
            let mut streams: Vec<(String, Option<Uuid>)> = Vec::new();
            loop {
                let s = p.stream_id()?;
                let mut pk = None;
                if p.peek_kw("PARTITION_KEY") {
                    p.i += 1;
                    pk = Some(p.uuid("partition key")?);
                }
                streams.push((s, pk));
                match p.peek() {
                    None => break,
                    Some(t) if is_kw(t, "FROM") || is_kw(t, "WINDOW") => break,
                    _ => {}
                }
            }
            enum From {
                Latest,
                All(u64),
                Map(Vec<(String, u64)>),
            }
            let mut from = None;
            if p.peek_kw("FROM") {
                p.i += 1;
                let t = p.peek().ok_or("missing FROM argument")?;
                if is_kw(t, "LATEST") {
                    p.i += 1;
                    from = Some(From::Latest);
                } else if is_kw(t, "MAP") {
                    p.i += 1;
                    let mut m = Vec::new();
                    loop {
                        let t = p.next("stream=version")?;
                        let s = std::str::from_utf8(t).map_err(|_| "map entry not utf-8")?;
                        let (a, b) = s.split_once('=').ok_or("map entry without =")?;
                        if a.is_empty() || a.len() > 64 || a.contains('\0') {
                            return Err("invalid stream id in map".into());
                        }
                        let v = digits::<u64>(b.as_bytes()).ok_or("invalid version in map")?;
                        m.push((a.to_string(), v));
                        match p.peek() {
                            None => break,
                            Some(t) if is_kw(t, "WINDOW") => break,
                            _ => {}
                        }
                    }
                    from = Some(From::Map(m));
                } else {
                    from = Some(From::All(p.u64("version")?));
                }
            }
            let window = p.window()?;
            p.end()?;
            let set: HashSet<(String, Option<Uuid>)> = streams.iter().cloned().collect();
            let matcher = if set.len() == 1 {
                let (s, pk) = set.into_iter().next().unwrap();
                let partition_key = pk.unwrap_or_else(|| default_pk(&s));
                let from_version = match &from {
                    None | Some(From::Latest) => None,
                    Some(From::All(n)) => Some(*n),
                    // later entries of a repeated key win (map semantics)
                    Some(From::Map(m)) => m.iter().rev().find(|(k, _)| *k == s).map(|(_, v)| *v),
                };
                SubscriptionMatcher::Stream { partition_key, stream_id: sid(&s), from_version }
            } else {
                let stream_ids: HashSet<(Uuid, StreamId)> = set.iter().map(|(s, pk)| (pk.unwrap_or_else(|| default_pk(s)), sid(s))).collect();
                let from_versions = match from {
                    None | Some(From::Latest) => FromVersions::Latest,
                    Some(From::All(n)) => FromVersions::AllStreams(n),
                    Some(From::Map(m)) => {
                        let mut out: HashMap<(Uuid, StreamId), u64> = HashMap::new();
                        let mut dedup: HashMap<String, u64> = HashMap::new();
                        for (k, v) in m {
                            dedup.insert(k, v);
                        }
                        for (k, v) in dedup {
                            let cands: Vec<_> = stream_ids.iter().filter(|(_, s)| s.as_ref() as &str == k).collect();
                            if cands.len() > 1 {
                                return Err("UNSPECIFIED: map entry for a stream subscribed under two partition keys".into());
                            }
                            if let Some((pk, s)) = cands.first() {
                                out.insert((*pk, s.clone()), v);
                            }
                        }
                        FromVersions::Streams(out)
                    }
                };
                SubscriptionMatcher::Streams { stream_ids, from_versions }
            };
            return Ok(Denot::Sub { matcher, window });
        }
        Cmd::EPSub => {
            // * | <partition_id> | <p1>,<p2>,...   [FROM LATEST | FROM <n> | FROM MAP (<p>=<s>)+ [DEFAULT <n>]] [WINDOW <n>]
            enum Sel {
                All,
                One(u16),
                Many(HashSet<u16>),
            }
            let t = p.next("partition selector")?;
            let mut by_key = false;
            let sel = if t == b"*" {
                Sel::All
            } else if let Some(id) = digits::<u16>(t) {
                Sel::One(id)
            } else if parse_uuid(t).is_some() {
                // "partition ID 0-65535 or UUID key": the id is only known to the handler
                by_key = true;
                Sel::One(0)
            } else {
                // ids and inclusive first-last ranges
                let s = std::str::from_utf8(t).map_err(|_| "selector not utf-8")?;
                let mut set = HashSet::new();
                for part in s.split(',') {
                    match part.split_once('-') {
                        Some((a, b)) => {
                            let a = digits::<u16>(a.as_bytes()).ok_or("invalid partition range")?;
                            let b = digits::<u16>(b.as_bytes()).ok_or("invalid partition range")?;
                            if a > b {
                                return Err("descending partition range".into());
                            }
                            set.extend(a..=b);
                        }
                        None => {
                            set.insert(digits::<u16>(part.as_bytes()).ok_or("invalid partition list")?);
                        }
                    }
                }
                Sel::Many(set)
            };
            let mut from: Option<FromSequences> = None;
            if p.peek_kw("FROM") {
                p.i += 1;
                let t = p.peek().ok_or("missing FROM argument")?;
                if is_kw(t, "LATEST") {
                    p.i += 1;
                    from = Some(FromSequences::Latest);
                } else if is_kw(t, "MAP") {
                    p.i += 1;
                    let mut m: HashMap<u16, u64> = HashMap::new();
                    loop {
                        let t = p.next("partition=sequence")?;
                        let s = std::str::from_utf8(t).map_err(|_| "map entry not utf-8")?;
                        let (a, b) = s.split_once('=').ok_or("map entry without =")?;
                        let k = digits::<u16>(a.as_bytes()).ok_or("invalid partition in map")?;
                        let v = digits::<u64>(b.as_bytes()).ok_or("invalid sequence in map")?;
                        m.insert(k, v);
                        match p.peek() {
                            None => break,
                            Some(t) if is_kw(t, "WINDOW") || is_kw(t, "DEFAULT") => break,
                            _ => {}
                        }
                    }
                    let mut fallback = None;
                    if p.peek_kw("DEFAULT") {
                        p.i += 1;
                        fallback = Some(p.u64("default sequence")?);
                    }
                    from = Some(FromSequences::Partitions { from_sequences: m, fallback });
                } else {
                    from = Some(FromSequences::AllPartitions(p.u64("sequence")?));
                }
            }
            let window = p.window()?;
            p.end()?;
            let matcher = match sel {
                Sel::All => SubscriptionMatcher::AllPartitions { from_sequences: from.unwrap_or(FromSequences::Latest) },
                Sel::Many(partition_ids) => SubscriptionMatcher::Partitions { partition_ids, from_sequences: from.unwrap_or(FromSequences::Latest) },
                Sel::One(partition_id) => SubscriptionMatcher::Partition {
                    partition_id,
                    from_sequence: match from {
                        None | Some(FromSequences::Latest) => None,
                        Some(FromSequences::AllPartitions(n)) => Some(n),
                        Some(FromSequences::Partitions { from_sequences, fallback }) => {
                            if by_key {
                                if fallback.is_none() || !from_sequences.is_empty() {
                                    return Err("UNSPECIFIED: per-partition map for a partition given by key".into());
                                }
                                fallback
                            } else {
                                from_sequences.get(&partition_id).copied().or(fallback)
                            }
                        }
                    },
                },
            };
            return Ok(Denot::Sub { matcher, window });
        }
    };
    p.end()?;
    Ok(d)
}
