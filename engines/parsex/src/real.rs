//! Runs the real `<Cmd>::parser().skip(eof())` of sierradb-server on a token list and converts the
//! parsed request into the reference denotation type.

use bytes::Bytes;
use combine::{Parser, eof};
use redis_protocol::resp3::types::BytesFrame;
use sierradb_protocol::ExpectedVersion;
use sierradb_server::parser::frame_stream;
use sierradb_server::request::{PartitionSelector, RangeValue};
use sierradb_server::request::{
    eack::EAck, eappend::EAppend, eget::EGet, emappend::EMAppend, epscan::EPScan, epseq::EPSeq, epsub::EPSub, escan::EScan, esub::ESub, esver::ESVer, hello::Hello,
    ping::Ping,
};

use crate::refp::{Cmd, Denot, Ev, Exp, PSel, Rv};

#[derive(Clone, Copy, Debug, PartialEq, Eq)]
pub enum FrameKind {
    Blob,
    Simple,
}

pub fn frames(toks: &[Vec<u8>], kind: FrameKind) -> Vec<BytesFrame> {
    toks.iter()
        .map(|t| match kind {
            FrameKind::Blob => BytesFrame::BlobString { data: Bytes::from(t.clone()), attributes: None },
            FrameKind::Simple => BytesFrame::SimpleString { data: Bytes::from(t.clone()), attributes: None },
        })
        .collect()
}

fn exp(e: ExpectedVersion) -> Exp {
    match e {
        ExpectedVersion::Any => Exp::Any,
        ExpectedVersion::Exists => Exp::Exists,
        ExpectedVersion::Empty => Exp::Empty,
        ExpectedVersion::Exact(n) => Exp::Exact(n),
    }
}

fn rv(r: RangeValue) -> Rv {
    match r {
        RangeValue::Start => Rv::Start,
        RangeValue::End => Rv::End,
        RangeValue::Value(n) => Rv::Val(n),
    }
}

fn psel(p: PartitionSelector) -> PSel {
    match p {
        PartitionSelector::ById(i) => PSel::Id(i),
        PartitionSelector::ByKey(k) => PSel::Key(k),
    }
}

/// Ok(denotation) or Err(rendered error message).  Panics propagate to the caller's `catch`.
pub fn parse(cmd: Cmd, toks: &[Vec<u8>], kind: FrameKind) -> Result<Denot, String> {
    let fr = frames(toks, kind);
    let s = frame_stream(&fr);
    macro_rules! run {
        ($ty:ident, |$c:ident| $conv:expr) => {
            match $ty::parser().skip(eof()).parse(s) {
                Ok(($c, _)) => Ok($conv),
                Err(e) => Err(e.to_string()),
            }
        };
    }
    match cmd {
        Cmd::Ping => run!(Ping, |_c| Denot::Ping),
        Cmd::Hello => run!(Hello, |c| Denot::Hello(c.version)),
        Cmd::EGet => run!(EGet, |c| Denot::EGet(c.event_id)),
        Cmd::EAck => run!(EAck, |c| Denot::EAck(c.subscription_id, c.cursor)),
        Cmd::EPSeq => run!(EPSeq, |c| Denot::EPSeq(psel(c.partition))),
        Cmd::ESVer => run!(ESVer, |c| Denot::ESVer(c.stream_id.to_string(), c.partition_key)),
        Cmd::EScan => run!(EScan, |c| Denot::EScan { stream: c.stream_id.to_string(), start: rv(c.start_version), end: rv(c.end_version), pk: c.partition_key, count: c.count }),
        Cmd::EPScan => run!(EPScan, |c| Denot::EPScan { part: psel(c.partition), start: rv(c.start_sequence), end: rv(c.end_sequence), count: c.count }),
        Cmd::EAppend => run!(EAppend, |c| Denot::EAppend {
            ev: Ev { stream: c.stream_id.to_string(), name: c.event_name, event_id: c.event_id, exp: exp(c.expected_version), ts: c.timestamp, payload: c.payload, metadata: c.metadata },
            pk: c.partition_key
        }),
        Cmd::EMAppend => run!(EMAppend, |c| Denot::EMAppend {
            pk: c.partition_key,
            events: c
                .events
                .into_iter()
                .map(|e| Ev { stream: e.stream_id.to_string(), name: e.event_name, event_id: e.event_id, exp: exp(e.expected_version), ts: e.timestamp, payload: e.payload, metadata: e.metadata })
                .collect()
        }),
        Cmd::ESub => run!(ESub, |c| Denot::Sub { matcher: c.matcher, window: c.window_size }),
        Cmd::EPSub => run!(EPSub, |c| Denot::Sub { matcher: c.matcher, window: c.window_size }),
    }
}
