//! Every public command builder of `sierradb-client` is executed; the frames it emits are parsed by the
//! real server parser and compared with the denotation of the client call.
//!
//! * `commands.rs` builders are taken through `PipelineExt` (no connection needed): the `redis::Cmd`
//!   arguments are exactly what would be written to the socket.
//! * `SubscriptionManager` methods need a connection: a recording fake RESP3 server on a loopback
//!   port answers HELLO / CLIENT / ESUB / EPSUB / EACK and logs every command array it receives.

use std::collections::{HashMap, HashSet};
use std::sync::{Arc, Mutex};
use std::time::{Duration, SystemTime, UNIX_EPOCH};

use serde_json::{Value, json};
use sierradb::StreamId;
use sierradb_client::{EAppendOptions, EMAppendEvent, ExpectedVersion, PipelineExt, SubscriptionManager};
use sierradb_cluster::subscription::{FromSequences, SubscriptionMatcher};
use tokio::io::{AsyncReadExt, AsyncWriteExt};
use uuid::Uuid;
use vcommon::Ctx;

use crate::Stats;
use crate::real::{self, FrameKind};
use crate::refp::{Cmd, Denot, Ev, Exp, PSel, Rv, default_pk};

enum Expect {
    Exactly(Denot),
    /// the call identifies a partition by key, which the server-side matcher can only hold as an id:
    /// any successfully parsed single-partition subscription with this window is accepted
    PartitionByKey { window: Option<u64> },
}

struct Call {
    name: String,
    detail: String,
    frames: Vec<Vec<u8>>,
    expect: Expect,
}

fn u(s: &str) -> Uuid {
    Uuid::parse_str(s).unwrap()
}

fn cmd_frames(p: &redis::Pipeline) -> Vec<Vec<u8>> {
    let c = p.cmd_iter().next().expect("one command in the pipeline");
    c.args_iter()
        .map(|a| match a {
            redis::Arg::Simple(b) => b.to_vec(),
            _ => b"0".to_vec(),
        })
        .collect()
}

fn exp_of(e: ExpectedVersion) -> Exp {
    match e {
        ExpectedVersion::Any => Exp::Any,
        ExpectedVersion::Exists => Exp::Exists,
        ExpectedVersion::Empty => Exp::Empty,
        ExpectedVersion::Exact(n) => Exp::Exact(n),
    }
}

fn builder_calls() -> Vec<Call> {
    let mut v = Vec::new();
    let pk = u(crate::gen_::UUID1);
    let eid = u(crate::gen_::UUID2);
    let ts = UNIX_EPOCH + Duration::from_millis(1_700_000_000_123);
    let exps = [ExpectedVersion::Any, ExpectedVersion::Exists, ExpectedVersion::Empty, ExpectedVersion::Exact(0), ExpectedVersion::Exact(u64::MAX)];
    // EAPPEND: every subset of the five non-version options x every expected version
    for mask in 0..32u32 {
        for e in exps {
            let mut o = EAppendOptions::new().expected_version(e);
            let mut ev = Ev { stream: "user-123".into(), name: "UserCreated".into(), event_id: None, exp: exp_of(e), ts: None, payload: vec![], metadata: vec![] };
            let mut epk = None;
            if mask & 1 != 0 {
                o = o.event_id(eid);
                ev.event_id = Some(eid);
            }
            if mask & 2 != 0 {
                o = o.partition_key(pk);
                epk = Some(pk);
            }
            if mask & 4 != 0 {
                o = o.timestamp(ts);
                ev.ts = Some(1_700_000_000_123);
            }
            if mask & 8 != 0 {
                o = o.payload(&b"{\"a\":1}"[..]);
                ev.payload = b"{\"a\":1}".to_vec();
            }
            if mask & 16 != 0 {
                o = o.metadata(vec![0xffu8, 0x00, 0x10]);
                ev.metadata = vec![0xff, 0x00, 0x10];
            }
            let mut p = redis::pipe();
            p.eappend("user-123", "UserCreated", o);
            v.push(Call { name: "eappend".into(), detail: format!("options mask {mask:05b}, expected {e:?}"), frames: cmd_frames(&p), expect: Expect::Exactly(Denot::EAppend { ev, pk: epk }) });
        }
    }
    // EMAPPEND: 1..=3 events, option subsets rotating
    for n in 1..=3usize {
        for mask in 0..16u32 {
            let mut events = Vec::new();
            let mut evs = Vec::new();
            for i in 0..n {
                let m = mask.rotate_left(i as u32) & 0xf;
                let stream = format!("stream{}", if i == 2 { 0 } else { i });
                let name = format!("Event{i}");
                let e = exps[(mask as usize + i) % exps.len()];
                let mut b = EMAppendEvent::new(stream.clone(), name.clone()).expected_version(e);
                let mut ev = Ev { stream, name, event_id: None, exp: exp_of(e), ts: None, payload: vec![], metadata: vec![] };
                if m & 1 != 0 {
                    b = b.event_id(eid);
                    ev.event_id = Some(eid);
                }
                if m & 2 != 0 {
                    b = b.timestamp(ts);
                    ev.ts = Some(1_700_000_000_123);
                }
                if m & 4 != 0 {
                    b = b.payload(&b"payload bytes"[..]);
                    ev.payload = b"payload bytes".to_vec();
                }
                if m & 8 != 0 {
                    b = b.metadata(&b"md"[..]);
                    ev.metadata = b"md".to_vec();
                }
                events.push(b);
                evs.push(ev);
            }
            let mut p = redis::pipe();
            p.emappend(pk, &events);
            v.push(Call { name: "emappend".into(), detail: format!("{n} events, option mask {mask:04b}"), frames: cmd_frames(&p), expect: Expect::Exactly(Denot::EMAppend { pk, events: evs }) });
        }
    }
    macro_rules! call {
        ($name:expr, $detail:expr, |$p:ident| $build:expr, $denot:expr) => {{
            let mut $p = redis::pipe();
            $build;
            v.push(Call { name: $name.into(), detail: $detail.into(), frames: cmd_frames(&$p), expect: Expect::Exactly($denot) });
        }};
    }
    call!("eget", "", |p| p.eget(eid), Denot::EGet(eid));
    for (start, end, count) in [(0u64, None, None), (5, Some(9u64), Some(1u64)), (u64::MAX, Some(u64::MAX), Some(u64::MAX)), (0, Some(0), Some(0))] {
        let e = end.map(Rv::Val).unwrap_or(Rv::End);
        let c = Some(count.unwrap_or(100));
        call!("epscan_by_key", format!("{start} {end:?} {count:?}"), |p| p.epscan_by_key(pk, start, end, count), Denot::EPScan { part: PSel::Key(pk), start: Rv::Val(start), end: e.clone(), count: c });
        for id in [0u16, 42, u16::MAX] {
            call!("epscan_by_id", format!("{id} {start} {end:?} {count:?}"), |p| p.epscan_by_id(id, start, end, count), Denot::EPScan { part: PSel::Id(id), start: Rv::Val(start), end: e.clone(), count: c });
        }
        call!("escan", format!("{start} {end:?} {count:?}"), |p| p.escan("my-stream", start, end, count), Denot::EScan { stream: "my-stream".into(), start: Rv::Val(start), end: e.clone(), pk: None, count: c });
        call!(
            "escan_with_partition_key",
            format!("{start} {end:?} {count:?}"),
            |p| p.escan_with_partition_key("my-stream", pk, start, end, count),
            Denot::EScan { stream: "my-stream".into(), start: Rv::Val(start), end: e.clone(), pk: Some(pk), count: c }
        );
    }
    call!("epseq_by_key", "", |p| p.epseq_by_key(pk), Denot::EPSeq(PSel::Key(pk)));
    for id in [0u16, 42, u16::MAX] {
        call!("epseq_by_id", format!("{id}"), |p| p.epseq_by_id(id), Denot::EPSeq(PSel::Id(id)));
    }
    call!("esver", "", |p| p.esver("my-stream"), Denot::ESVer("my-stream".into(), None));
    call!("esver_with_partition_key", "", |p| p.esver_with_partition_key("my-stream", pk), Denot::ESVer("my-stream".into(), Some(pk)));
    let stream = |s: &str, k: Option<Uuid>, from: Option<u64>| SubscriptionMatcher::Stream { partition_key: k.unwrap_or_else(|| default_pk(s)), stream_id: StreamId::new(s).unwrap(), from_version: from };
    call!("esub", "", |p| p.esub("user-123"), Denot::Sub { matcher: stream("user-123", None, None), window: None });
    call!("esub_with_partition_key", "", |p| p.esub_with_partition_key("user-123", pk), Denot::Sub { matcher: stream("user-123", Some(pk), None), window: None });
    for from in [0u64, 50, u64::MAX] {
        call!("esub_from_version", format!("{from}"), |p| p.esub_from_version("user-123", from), Denot::Sub { matcher: stream("user-123", None, Some(from)), window: None });
        call!(
            "esub_with_partition_and_version",
            format!("{from}"),
            |p| p.esub_with_partition_and_version("user-123", pk, from),
            Denot::Sub { matcher: stream("user-123", Some(pk), Some(from)), window: None }
        );
        for id in [0u16, 5, u16::MAX] {
            call!(
                "epsub_by_id_from_sequence",
                format!("{id} {from}"),
                |p| p.epsub_by_id_from_sequence(id, from),
                Denot::Sub { matcher: SubscriptionMatcher::Partition { partition_id: id, from_sequence: Some(from) }, window: None }
            );
        }
        let mut p = redis::pipe();
        p.epsub_by_key_from_sequence(pk, from);
        v.push(Call { name: "epsub_by_key_from_sequence".into(), detail: format!("{from}"), frames: cmd_frames(&p), expect: Expect::PartitionByKey { window: None } });
    }
    for id in [0u16, 5, u16::MAX] {
        call!("epsub_by_id", format!("{id}"), |p| p.epsub_by_id(id), Denot::Sub { matcher: SubscriptionMatcher::Partition { partition_id: id, from_sequence: None }, window: None });
    }
    {
        let mut p = redis::pipe();
        p.epsub_by_key(pk);
        v.push(Call { name: "epsub_by_key".into(), detail: String::new(), frames: cmd_frames(&p), expect: Expect::PartitionByKey { window: None } });
    }
    for ver in [2u32, 3] {
        call!("hello", format!("{ver}"), |p| p.hello(ver), Denot::Hello(ver as i64));
    }
    call!("ping", "", |p| p.ping(), Denot::Ping);
    for c in [0u64, 1000, u64::MAX] {
        call!("eack", format!("{c}"), |p| p.eack(eid, c), Denot::EAck(eid, c));
    }
    v
}

// ---------------------------------------------------------------------------------------------
// recording fake server

#[derive(Default)]
struct Recorder {
    log: Mutex<Vec<Vec<Vec<u8>>>>,
}

fn parse_array(buf: &[u8]) -> Option<(Vec<Vec<u8>>, usize)> {
    // *<n>\r\n($<len>\r\n<bytes>\r\n){n}
    fn line(buf: &[u8], at: usize) -> Option<(&[u8], usize)> {
        let end = buf[at..].windows(2).position(|w| w == b"\r\n")? + at;
        Some((&buf[at..end], end + 2))
    }
    if buf.first()? != &b'*' {
        return None;
    }
    let (l, mut at) = line(buf, 1)?;
    let n: usize = std::str::from_utf8(l).ok()?.parse().ok()?;
    let mut out = Vec::with_capacity(n);
    for _ in 0..n {
        if *buf.get(at)? != b'$' {
            return None;
        }
        let (l, next) = line(buf, at + 1)?;
        let len: usize = std::str::from_utf8(l).ok()?.parse().ok()?;
        if buf.len() < next + len + 2 {
            return None;
        }
        out.push(buf[next..next + len].to_vec());
        at = next + len + 2;
    }
    Some((out, at))
}

async fn serve(listener: tokio::net::TcpListener, rec: Arc<Recorder>) {
    loop {
        let Ok((mut sock, _)) = listener.accept().await else { return };
        let rec = rec.clone();
        tokio::spawn(async move {
            let mut buf: Vec<u8> = Vec::new();
            let mut tmp = [0u8; 4096];
            loop {
                while let Some((cmd, used)) = parse_array(&buf) {
                    buf.drain(..used);
                    let name = cmd.first().map(|n| String::from_utf8_lossy(n).to_uppercase()).unwrap_or_default();
                    let reply: Vec<u8> = match name.as_str() {
                        "HELLO" => b"%3\r\n+server\r\n+sierradb\r\n+version\r\n+0.0.0\r\n+proto\r\n:3\r\n".to_vec(),
                        "ESUB" | "EPSUB" => format!("+{}\r\n", Uuid::new_v4()).into_bytes(),
                        _ => b"+OK\r\n".to_vec(),
                    };
                    if !matches!(name.as_str(), "HELLO" | "CLIENT" | "AUTH" | "SELECT") {
                        rec.log.lock().unwrap().push(cmd);
                    }
                    if sock.write_all(&reply).await.is_err() {
                        return;
                    }
                }
                match sock.read(&mut tmp).await {
                    Ok(0) | Err(_) => return,
                    Ok(n) => buf.extend_from_slice(&tmp[..n]),
                }
            }
        });
    }
}

async fn manager_calls() -> Result<Vec<Call>, String> {
    let listener = tokio::net::TcpListener::bind("127.0.0.1:0").await.map_err(|e| e.to_string())?;
    let port = listener.local_addr().map_err(|e| e.to_string())?.port();
    let rec = Arc::new(Recorder::default());
    tokio::spawn(serve(listener, rec.clone()));
    let client = redis::Client::open(format!("redis://127.0.0.1:{port}/?protocol=resp3")).map_err(|e| e.to_string())?;
    let mut m = SubscriptionManager::new(&client).await.map_err(|e| format!("SubscriptionManager::new against the fake server: {e}"))?;
    let mut out: Vec<Call> = Vec::new();
    let pk = u(crate::gen_::UUID1);
    let stream = |s: &str, k: Option<Uuid>, from: Option<u64>| SubscriptionMatcher::Stream { partition_key: k.unwrap_or_else(|| default_pk(s)), stream_id: StreamId::new(s).unwrap(), from_version: from };
    let part = |id: u16, from: Option<u64>| SubscriptionMatcher::Partition { partition_id: id, from_sequence: from };
    macro_rules! rec_call {
        ($name:expr, $detail:expr, $fut:expr, $expect:expr) => {{
            let before = rec.log.lock().unwrap().len();
            let r = $fut.await;
            if let Err(e) = &r {
                return Err(format!("client call {} failed against the fake server: {e}", $name));
            }
            drop(r);
            let log = rec.log.lock().unwrap();
            let frames = log.get(before).cloned().ok_or_else(|| format!("client call {} sent nothing", $name))?;
            out.push(Call { name: $name.into(), detail: $detail.into(), frames, expect: $expect });
        }};
    }
    let sub = |matcher: SubscriptionMatcher, window: Option<u64>| Expect::Exactly(Denot::Sub { matcher, window });
    rec_call!("subscribe_to_stream", "", m.subscribe_to_stream("user-123"), sub(stream("user-123", None, None), None));
    rec_call!("subscribe_to_stream_from_latest", "", m.subscribe_to_stream_from_latest("user-123"), sub(stream("user-123", None, None), None));
    rec_call!("subscribe_to_stream_with_partition_key", "", m.subscribe_to_stream_with_partition_key("user-123", pk), sub(stream("user-123", Some(pk), None), None));
    for w in [1u32, 100, u32::MAX] {
        rec_call!("subscribe_to_stream_with_window", format!("{w}"), m.subscribe_to_stream_with_window("user-123", w), sub(stream("user-123", None, None), Some(w as u64)));
        rec_call!(
            "subscribe_to_stream_with_partition_key_and_window",
            format!("{w}"),
            m.subscribe_to_stream_with_partition_key_and_window("user-123", pk, w),
            sub(stream("user-123", Some(pk), None), Some(w as u64))
        );
        rec_call!("subscribe_to_partition_with_window", format!("{w}"), m.subscribe_to_partition_with_window(5, w), sub(part(5, None), Some(w as u64)));
        rec_call!("subscribe_to_partition_key_with_window", format!("{w}"), m.subscribe_to_partition_key_with_window(pk, w), Expect::PartitionByKey { window: Some(w as u64) });
        for from in [0u64, 50, u64::MAX] {
            rec_call!(
                "subscribe_to_stream_from_version_with_window",
                format!("{from} {w}"),
                m.subscribe_to_stream_from_version_with_window("user-123", from, w),
                sub(stream("user-123", None, Some(from)), Some(w as u64))
            );
            rec_call!(
                "subscribe_to_stream_with_partition_and_version_and_window",
                format!("{from} {w}"),
                m.subscribe_to_stream_with_partition_and_version_and_window("user-123", pk, from, w),
                sub(stream("user-123", Some(pk), Some(from)), Some(w as u64))
            );
            rec_call!(
                "subscribe_to_partition_from_sequence_with_window",
                format!("{from} {w}"),
                m.subscribe_to_partition_from_sequence_with_window(5, from, w),
                sub(part(5, Some(from)), Some(w as u64))
            );
            rec_call!(
                "subscribe_to_partition_key_from_sequence_with_window",
                format!("{from} {w}"),
                m.subscribe_to_partition_key_from_sequence_with_window(pk, from, w),
                Expect::PartitionByKey { window: Some(w as u64) }
            );
        }
    }
    for from in [0u64, 50, u64::MAX] {
        rec_call!("subscribe_to_stream_from_version", format!("{from}"), m.subscribe_to_stream_from_version("user-123", from), sub(stream("user-123", None, Some(from)), None));
        rec_call!(
            "subscribe_to_stream_with_partition_and_version",
            format!("{from}"),
            m.subscribe_to_stream_with_partition_and_version("user-123", pk, from),
            sub(stream("user-123", Some(pk), Some(from)), None)
        );
        rec_call!("subscribe_to_partition_from_sequence", format!("{from}"), m.subscribe_to_partition_from_sequence(5, from), sub(part(5, Some(from)), None));
        rec_call!("subscribe_to_partition_key_from_sequence", format!("{from}"), m.subscribe_to_partition_key_from_sequence(pk, from), Expect::PartitionByKey { window: None });
        for w in [None, Some(7u32)] {
            let w64 = w.map(|x| x as u64);
            rec_call!(
                "subscribe_to_all_partitions",
                format!("{from} {w:?}"),
                m.subscribe_to_all_partitions(from, w),
                sub(SubscriptionMatcher::AllPartitions { from_sequences: FromSequences::AllPartitions(from) }, w64)
            );
            for (range, ids) in [("*", None), ("42", Some(vec![42u16])), ("0,1,5", Some(vec![0, 1, 5])), ("0-3", Some(vec![0, 1, 2, 3]))] {
                let matcher = match &ids {
                    None => SubscriptionMatcher::AllPartitions { from_sequences: FromSequences::AllPartitions(from) },
                    Some(v) if v.len() == 1 => part(v[0], Some(from)),
                    Some(v) => SubscriptionMatcher::Partitions { partition_ids: v.iter().copied().collect::<HashSet<_>>(), from_sequences: FromSequences::AllPartitions(from) },
                };
                rec_call!("subscribe_to_partitions", format!("{range:?} {from} {w:?}"), m.subscribe_to_partitions(range, from, w), sub(matcher, w64));
            }
            rec_call!(
                "subscribe_to_partition_range",
                format!("0..=3 {from} {w:?}"),
                m.subscribe_to_partition_range(0, 3, from, w),
                sub(SubscriptionMatcher::Partitions { partition_ids: (0u16..=3).collect(), from_sequences: FromSequences::AllPartitions(from) }, w64)
            );
        }
    }
    for id in [0u16, 5, u16::MAX] {
        rec_call!("subscribe_to_partition", format!("{id}"), m.subscribe_to_partition(id), sub(part(id, None), None));
    }
    rec_call!("subscribe_to_partition_key", "", m.subscribe_to_partition_key(pk), Expect::PartitionByKey { window: None });
    rec_call!(
        "subscribe_to_all_partitions_from_latest",
        "",
        m.subscribe_to_all_partitions_from_latest(),
        sub(SubscriptionMatcher::AllPartitions { from_sequences: FromSequences::Latest }, None)
    );
    for map in [vec![(0u16, 500u64)], vec![(0, 500), (1, 1200), (127, u64::MAX)]] {
        let hm: HashMap<u16, u64> = map.iter().copied().collect();
        for w in [None, Some(9u32)] {
            let w64 = w.map(|x| x as u64);
            let matcher = if hm.len() == 1 {
                part(map[0].0, Some(map[0].1))
            } else {
                SubscriptionMatcher::Partitions { partition_ids: hm.keys().copied().collect(), from_sequences: FromSequences::Partitions { from_sequences: hm.clone(), fallback: None } }
            };
            rec_call!("subscribe_to_partitions_with_sequences", format!("{map:?} {w:?}"), m.subscribe_to_partitions_with_sequences(hm.clone(), w), sub(matcher, w64));
            rec_call!(
                "subscribe_to_all_partitions_with_fallback",
                format!("{map:?} 100 {w:?}"),
                m.subscribe_to_all_partitions_with_fallback(hm.clone(), 100, w),
                sub(SubscriptionMatcher::AllPartitions { from_sequences: FromSequences::Partitions { from_sequences: hm.clone(), fallback: Some(100) } }, w64)
            );
            rec_call!(
                "subscribe_to_all_partitions_flexible",
                format!("{map:?} None {w:?}"),
                m.subscribe_to_all_partitions_flexible(hm.clone(), None, w),
                sub(SubscriptionMatcher::AllPartitions { from_sequences: FromSequences::Partitions { from_sequences: hm.clone(), fallback: None } }, w64)
            );
        }
    }
    rec_call!(
        "subscribe_to_all_partitions_flexible",
        "{} None",
        m.subscribe_to_all_partitions_flexible(HashMap::new(), None, None),
        sub(SubscriptionMatcher::AllPartitions { from_sequences: FromSequences::Latest }, None)
    );
    rec_call!(
        "subscribe_to_all_partitions_flexible",
        "{} Some(3)",
        m.subscribe_to_all_partitions_flexible(HashMap::new(), Some(3), Some(2)),
        sub(SubscriptionMatcher::AllPartitions { from_sequences: FromSequences::AllPartitions(3) }, Some(2))
    );
    let sid = u(crate::gen_::UUID2);
    for c in [0u64, 1000, u64::MAX] {
        rec_call!("acknowledge_up_to_cursor", format!("{c}"), m.acknowledge_up_to_cursor(sid, c), Expect::Exactly(Denot::EAck(sid, c)));
    }
    Ok(out)
}

pub fn run(ctx: &Ctx, st: &Stats, only: Option<String>) -> Value {
    let _ = SystemTime::now();
    let mut calls = builder_calls();
    let n_builders = calls.len();
    let rt = tokio::runtime::Builder::new_multi_thread().worker_threads(2).enable_all().build().unwrap_or_else(|e| vcommon::machinery_fail(&format!("tokio: {e}")));
    match rt.block_on(async { tokio::time::timeout(Duration::from_secs(60), manager_calls()).await }) {
        Ok(Ok(v)) => calls.extend(v),
        Ok(Err(e)) => vcommon::machinery_fail(&e),
        Err(_) => vcommon::machinery_fail("the SubscriptionManager sweep against the fake server timed out"),
    }
    let n_manager = calls.len() - n_builders;
    let mut names: HashSet<String> = HashSet::new();
    let mut sample = Vec::new();
    for c in &calls {
        if let Some(o) = &only {
            if &c.name != o {
                continue;
            }
        }
        names.insert(c.name.clone());
        use std::sync::atomic::Ordering::Relaxed;
        st.evals.fetch_add(1, Relaxed);
        let show: Vec<String> = c.frames.iter().map(|t| String::from_utf8_lossy(t).into_owned()).collect();
        if sample.len() < 4 {
            sample.push(json!({"client_call": c.name, "detail": c.detail, "frames": show}));
        }
        let case = json!({"client_call": c.name, "detail": c.detail, "frames": show});
        let Some(cmd) = c.frames.first().and_then(|n| std::str::from_utf8(n).ok()).and_then(Cmd::from_name) else {
            ctx.violation(&format!("C21/client/{}/unknown-command", c.name), &format!("client call {} emitted {show:?}", c.name), case);
            continue;
        };
        let got = vcommon::catch(|| real::parse(cmd, &c.frames[1..], FrameKind::Blob));
        let mut h = vcommon::fnv(b"client");
        for t in &c.frames {
            h = h.wrapping_mul(0x100000001b3) ^ vcommon::fnv(t);
        }
        st.distinct.add_hash(h);
        match (&c.expect, got) {
            (_, Err(p)) => ctx.violation(&format!("C21/client/{}/panic", c.name), &format!("server parser panicked on what {} emits ({show:?}): {p}", c.name), case),
            (_, Ok(Err(e))) => {
                st.rejected.fetch_add(1, Relaxed);
                ctx.violation(
                    &format!("C21/client/{}/rejected", c.name),
                    &format!("client call {}({}) emits {show:?}, which the server rejects: {e}", c.name, c.detail),
                    case,
                )
            }
            (Expect::Exactly(want), Ok(Ok(have))) => {
                st.accepted.fetch_add(1, Relaxed);
                if want != &have {
                    ctx.violation(
                        &format!("C21/client/{}/misparsed", c.name),
                        &format!("client call {}({}) emits {show:?}, which the server reads as {have:?}; the call denotes {want:?}", c.name, c.detail),
                        case,
                    );
                }
            }
            (Expect::PartitionByKey { window }, Ok(Ok(have))) => {
                st.accepted.fetch_add(1, Relaxed);
                let ok = matches!(&have, Denot::Sub { matcher: SubscriptionMatcher::Partition { .. }, window: w } if w == window);
                if !ok {
                    ctx.violation(
                        &format!("C21/client/{}/misparsed", c.name),
                        &format!("client call {}({}) emits {show:?}, which the server reads as {have:?}; the call denotes a single-partition subscription", c.name, c.detail),
                        case,
                    );
                }
            }
        }
    }
    json!({"builder_calls": n_builders, "subscription_manager_calls": n_manager, "distinct_client_functions": names.len(), "samples": sample})
}
