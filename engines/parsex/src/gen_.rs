//! Enumeration of the documented command forms (bounded) and of their near misses.

use std::collections::BTreeSet;

use crate::refp::Cmd;

#[derive(Clone, Debug, PartialEq, Eq, Hash, PartialOrd, Ord)]
pub enum T {
    Kw(&'static str),
    Val(Vec<u8>),
}

pub fn v(s: &str) -> T {
    T::Val(s.as_bytes().to_vec())
}
fn kw(s: &'static str) -> T {
    T::Kw(s)
}

#[derive(Clone, Copy, Debug, PartialEq, Eq)]
pub enum Case {
    Upper,
    Lower,
    Mixed,
}

pub fn render(toks: &[T], case: Case) -> Vec<Vec<u8>> {
    toks.iter()
        .map(|t| match t {
            T::Val(v) => v.clone(),
            T::Kw(k) => match case {
                Case::Upper => k.as_bytes().to_vec(),
                Case::Lower => k.to_ascii_lowercase().into_bytes(),
                Case::Mixed => k.bytes().enumerate().map(|(i, b)| if i % 2 == 0 { b.to_ascii_uppercase() } else { b.to_ascii_lowercase() }).collect(),
            },
        })
        .collect()
}

pub const UUID1: &str = "550e8400-e29b-41d4-a716-446655440000";
pub const UUID2: &str = "0198c2a1-7b3c-7def-8123-456789abcdef";
const UUID_UPPER: &str = "550E8400-E29B-41D4-A716-446655440000";

fn x64() -> String {
    "x".repeat(64)
}

fn streams_ok() -> Vec<String> {
    vec!["a".into(), "user-123".into(), x64(), "123".into(), UUID2.into(), "LATEST".into()]
}
fn streams_bad() -> Vec<Vec<u8>> {
    vec![b"".to_vec(), "x".repeat(65).into_bytes(), b"a\0b".to_vec()]
}
fn nums_ok() -> Vec<&'static str> {
    vec!["0", "1", "4294967296", "9223372036854775807", "9223372036854775808", "18446744073709551615"]
}
fn nums_bad() -> Vec<&'static str> {
    vec!["18446744073709551616", "-1", "abc", "", "1.5", "0x10"]
}
fn uuids_ok() -> Vec<&'static str> {
    vec![UUID1, UUID_UPPER, UUID2]
}
fn uuids_bad() -> Vec<&'static str> {
    vec!["550e8400-e29b-41d4-a716", "not-a-uuid", "", "550e8400-e29b-41d4-a716-44665544000g"]
}
fn datas() -> Vec<Vec<u8>> {
    vec![b"x".to_vec(), b"{\"name\":\"john\"}".to_vec(), vec![0xff, 0xfe, 0x00], b"hello world".to_vec()]
}

fn cat(parts: &[&[T]]) -> Vec<T> {
    parts.iter().flat_map(|p| p.iter().cloned()).collect()
}

/// All ordered selections of at most `k` distinct clauses.
fn orders(clauses: &[Vec<T>], k: usize) -> Vec<Vec<T>> {
    fn go(clauses: &[Vec<T>], k: usize, used: &mut Vec<usize>, out: &mut Vec<Vec<T>>) {
        out.push(used.iter().flat_map(|&i| clauses[i].clone()).collect());
        if used.len() == k {
            return;
        }
        for i in 0..clauses.len() {
            if !used.contains(&i) {
                used.push(i);
                go(clauses, k, used, out);
                used.pop();
            }
        }
    }
    let mut out = Vec::new();
    go(clauses, k, &mut Vec::new(), &mut out);
    out
}

fn event_clauses(with_pk: bool) -> Vec<Vec<T>> {
    let mut c = vec![vec![kw("EVENT_ID"), v(UUID2)]];
    if with_pk {
        c.push(vec![kw("PARTITION_KEY"), v(UUID1)]);
    }
    c.push(vec![kw("EXPECTED_VERSION"), v("3")]);
    c.push(vec![kw("TIMESTAMP"), v("1700000000000")]);
    c.push(vec![kw("PAYLOAD"), T::Val(b"{\"name\":\"john\"}".to_vec())]);
    c.push(vec![kw("METADATA"), T::Val(b"{\"source\":\"api\"}".to_vec())]);
    c
}

/// (valid-by-the-documentation commands, commands with one invalid value that must be rejected)
pub fn commands(cmd: Cmd, thorough: bool) -> (Vec<Vec<T>>, Vec<Vec<T>>) {
    let mut ok: Vec<Vec<T>> = Vec::new();
    let mut bad: Vec<Vec<T>> = Vec::new();
    let kmax = if thorough { 4 } else { 3 };
    match cmd {
        Cmd::Ping => ok.push(vec![]),
        Cmd::Hello => {
            for n in ["2", "3", "0", "-1", "9223372036854775807"] {
                ok.push(vec![v(n)]);
            }
            for n in ["abc", "", "9223372036854775808"] {
                bad.push(vec![v(n)]);
            }
        }
        Cmd::EGet => {
            for u in uuids_ok() {
                ok.push(vec![v(u)]);
            }
            for u in uuids_bad() {
                bad.push(vec![v(u)]);
            }
        }
        Cmd::EAck => {
            for u in uuids_ok() {
                for n in nums_ok() {
                    ok.push(vec![v(u), v(n)]);
                }
            }
            for u in uuids_bad() {
                bad.push(vec![v(u), v("1")]);
            }
            for n in nums_bad() {
                bad.push(vec![v(UUID1), v(n)]);
            }
        }
        Cmd::EPSeq => {
            for p in ["0", "42", "65535", UUID1, UUID_UPPER] {
                ok.push(vec![v(p)]);
            }
            for p in ["65536", "-1", "abc", "", "550e8400-e29b-41d4-a716"] {
                bad.push(vec![v(p)]);
            }
        }
        Cmd::ESVer => {
            for s in streams_ok() {
                ok.push(vec![v(&s)]);
                for u in uuids_ok() {
                    ok.push(vec![v(&s), kw("PARTITION_KEY"), v(u)]);
                }
            }
            for s in streams_bad() {
                bad.push(vec![T::Val(s)]);
            }
            for u in uuids_bad() {
                bad.push(vec![v("a"), kw("PARTITION_KEY"), v(u)]);
            }
        }
        Cmd::EScan | Cmd::EPScan => {
            let heads: Vec<T> = if cmd == Cmd::EScan { streams_ok().iter().map(|s| v(s)).collect() } else { ["0", "42", "65535", UUID1].iter().map(|s| v(s)).collect() };
            let rvs = ["-", "+", "0", "100", "18446744073709551615"];
            let clauses: Vec<Vec<T>> = if cmd == Cmd::EScan { vec![vec![kw("PARTITION_KEY"), v(UUID1)], vec![kw("COUNT"), v("50")]] } else { vec![vec![kw("COUNT"), v("50")]] };
            for (hi, h) in heads.iter().enumerate() {
                for a in rvs {
                    for b in rvs {
                        for tail in orders(&clauses, 2) {
                            if hi > 1 && !(a == "-" && b == "+") {
                                continue;
                            }
                            ok.push(cat(&[&[h.clone(), v(a), v(b)], &tail]));
                        }
                    }
                }
            }
            for n in nums_ok() {
                ok.push(vec![heads[0].clone(), v("-"), v("+"), kw("COUNT"), v(n)]);
            }
            for n in nums_bad() {
                bad.push(vec![heads[0].clone(), v("-"), v("+"), kw("COUNT"), v(n)]);
                if n != "-1" {
                    bad.push(vec![heads[0].clone(), v(n), v("+")]);
                }
            }
            bad.push(vec![heads[0].clone(), v("-")]);
            bad.push(vec![heads[0].clone()]);
            if cmd == Cmd::EScan {
                for s in streams_bad() {
                    bad.push(vec![T::Val(s), v("-"), v("+")]);
                }
                for u in uuids_bad() {
                    bad.push(vec![v("a"), v("-"), v("+"), kw("PARTITION_KEY"), v(u)]);
                }
            } else {
                for p in ["65536", "abc", ""] {
                    bad.push(vec![v(p), v("-"), v("+")]);
                }
            }
        }
        Cmd::EAppend => {
            let clauses = event_clauses(true);
            for tail in orders(&clauses, kmax) {
                ok.push(cat(&[&[v("my-stream"), v("UserCreated")], &tail]));
            }
            // all six clauses, every rotation and the reverse
            for r in 0..clauses.len() {
                let mut c = clauses.clone();
                c.rotate_left(r);
                ok.push(cat(&[&[v("my-stream"), v("UserCreated")], &c.concat()]));
                c.reverse();
                ok.push(cat(&[&[v("my-stream"), v("UserCreated")], &c.concat()]));
            }
            for s in streams_ok() {
                for name in ["E", "UserCreated", "user.created/v2", "123"] {
                    ok.push(vec![v(&s), v(name)]);
                    ok.push(vec![v(&s), v(name), kw("EXPECTED_VERSION"), v("empty")]);
                }
            }
            for e in ["any", "ANY", "exists", "Empty", "0", "18446744073709551615"] {
                ok.push(vec![v("s"), v("E"), kw("EXPECTED_VERSION"), v(e)]);
            }
            for e in ["none", "-1", "18446744073709551616", ""] {
                bad.push(vec![v("s"), v("E"), kw("EXPECTED_VERSION"), v(e)]);
            }
            for n in nums_ok() {
                ok.push(vec![v("s"), v("E"), kw("TIMESTAMP"), v(n)]);
            }
            for n in nums_bad() {
                bad.push(vec![v("s"), v("E"), kw("TIMESTAMP"), v(n)]);
            }
            for u in uuids_ok() {
                ok.push(vec![v("s"), v("E"), kw("EVENT_ID"), v(u)]);
                ok.push(vec![v("s"), v("E"), kw("PARTITION_KEY"), v(u)]);
            }
            for u in uuids_bad() {
                bad.push(vec![v("s"), v("E"), kw("EVENT_ID"), v(u)]);
                bad.push(vec![v("s"), v("E"), kw("PARTITION_KEY"), v(u)]);
            }
            for d in datas() {
                ok.push(vec![v("s"), v("E"), kw("PAYLOAD"), T::Val(d.clone())]);
                ok.push(vec![v("s"), v("E"), kw("METADATA"), T::Val(d.clone()), kw("PAYLOAD"), T::Val(d)]);
            }
            for s in streams_bad() {
                bad.push(vec![T::Val(s), v("E")]);
            }
            bad.push(vec![v("s")]);
            bad.push(vec![]);
        }
        Cmd::EMAppend => {
            let clauses = event_clauses(false);
            let pk = v(UUID1);
            for tail in orders(&clauses, if thorough { 3 } else { 2 }) {
                ok.push(cat(&[&[pk.clone(), v("stream1"), v("EventA")], &tail]));
                // two and three events
                ok.push(cat(&[&[pk.clone(), v("stream1"), v("EventA")], &tail, &[v("stream2"), v("EventB")], &tail]));
                ok.push(cat(&[&[pk.clone(), v("stream1"), v("EventA")], &[v("stream1"), v("EventB")], &tail, &[v("stream3"), v("EventC")]]));
            }
            for s in streams_ok() {
                ok.push(vec![pk.clone(), v(&s), v("E")]);
                ok.push(vec![pk.clone(), v("a"), v("E"), v(&s), v("F"), kw("EXPECTED_VERSION"), v("empty")]);
            }
            for u in uuids_ok() {
                ok.push(vec![v(u), v("a"), v("E")]);
            }
            for u in uuids_bad() {
                bad.push(vec![v(u), v("a"), v("E")]);
                bad.push(vec![pk.clone(), v("a"), v("E"), kw("EVENT_ID"), v(u)]);
            }
            for e in ["bogus", "-1", ""] {
                bad.push(vec![pk.clone(), v("a"), v("E"), kw("EXPECTED_VERSION"), v(e)]);
                bad.push(vec![pk.clone(), v("a"), v("E"), v("b"), v("F"), kw("EXPECTED_VERSION"), v(e)]);
            }
            for n in nums_bad() {
                bad.push(vec![pk.clone(), v("a"), v("E"), kw("TIMESTAMP"), v(n)]);
            }
            for s in streams_bad() {
                bad.push(vec![pk.clone(), T::Val(s), v("E")]);
            }
            bad.push(vec![pk.clone()]);
            bad.push(vec![pk.clone(), v("a")]);
            bad.push(vec![pk.clone(), v("a"), v("E"), v("b")]);
        }
        Cmd::ESub => {
            let names = ["user-1", "user-2", "user-3"];
            let mut selectors: Vec<Vec<T>> = Vec::new();
            // 1..=3 streams, each with / without an explicit partition key
            for n in 1..=3usize {
                for mask in 0..(1u32 << n) {
                    let mut s = Vec::new();
                    for (i, name) in names.iter().take(n).enumerate() {
                        s.push(v(name));
                        if mask & (1 << i) != 0 {
                            s.push(kw("PARTITION_KEY"));
                            s.push(v(if i % 2 == 0 { UUID1 } else { UUID2 }));
                        }
                    }
                    selectors.push(s);
                }
            }
            for s in streams_ok() {
                selectors.push(vec![v(&s)]);
                selectors.push(vec![v("other"), v(&s)]);
            }
            // the same stream twice (set semantics)
            selectors.push(vec![v("user-1"), v("user-1")]);
            let mut froms: Vec<Vec<T>> = vec![vec![], vec![kw("FROM"), kw("LATEST")]];
            for n in ["0", "50", "18446744073709551615"] {
                froms.push(vec![kw("FROM"), v(n)]);
            }
            froms.push(vec![kw("FROM"), kw("MAP"), v("user-1=10")]);
            froms.push(vec![kw("FROM"), kw("MAP"), v("user-1=10"), v("user-2=20")]);
            froms.push(vec![kw("FROM"), kw("MAP"), v("user-1=10"), v("user-2=20"), v("user-3=18446744073709551615")]);
            froms.push(vec![kw("FROM"), kw("MAP"), v("user-2=0"), v("unknown=7")]);
            let windows: Vec<Vec<T>> = vec![vec![], vec![kw("WINDOW"), v("1")], vec![kw("WINDOW"), v("100")], vec![kw("WINDOW"), v("18446744073709551615")]];
            for s in &selectors {
                for f in &froms {
                    for w in &windows {
                        ok.push(cat(&[s, f, w]));
                    }
                }
            }
            bad.push(vec![]);
            for s in streams_bad() {
                bad.push(vec![T::Val(s)]);
            }
            bad.push(vec![v("a"), kw("WINDOW"), v("0")]);
            for n in nums_bad() {
                bad.push(vec![v("a"), kw("WINDOW"), v(n)]);
                bad.push(vec![v("a"), kw("FROM"), v(n)]);
                bad.push(vec![v("a"), v("b"), kw("FROM"), v(n)]);
            }
            for u in uuids_bad() {
                bad.push(vec![v("a"), kw("PARTITION_KEY"), v(u)]);
            }
            bad.push(vec![v("a"), kw("FROM")]);
            bad.push(vec![v("a"), kw("FROM"), kw("MAP")]);
            bad.push(vec![v("a"), kw("FROM"), kw("MAP"), v("a")]);
            bad.push(vec![v("a"), kw("FROM"), kw("MAP"), v("a=x")]);
            bad.push(vec![v("a"), kw("WINDOW")]);
            bad.push(vec![v("a"), kw("PARTITION_KEY")]);
            // documented order is FROM then WINDOW
            bad.push(vec![v("a"), kw("WINDOW"), v("5"), kw("FROM"), v("3")]);
        }
        Cmd::EPSub => {
            let selectors = ["*", "0", "5", "65535", "1,2,3", "7,7", "0,65535", "0-3", "0,5-7", UUID1];
            let mut froms: Vec<Vec<T>> = vec![vec![], vec![kw("FROM"), kw("LATEST")]];
            for n in ["0", "1000", "18446744073709551615"] {
                froms.push(vec![kw("FROM"), v(n)]);
            }
            froms.push(vec![kw("FROM"), kw("MAP"), v("1=100")]);
            froms.push(vec![kw("FROM"), kw("MAP"), v("1=100"), v("2=200")]);
            froms.push(vec![kw("FROM"), kw("MAP"), v("1=100"), v("2=200"), kw("DEFAULT"), v("0")]);
            froms.push(vec![kw("FROM"), kw("MAP"), v("5=18446744073709551615"), kw("DEFAULT"), v("9")]);
            froms.push(vec![kw("FROM"), kw("MAP"), v("65535=1"), v("1=2"), v("1=3")]);
            let windows: Vec<Vec<T>> = vec![vec![], vec![kw("WINDOW"), v("1")], vec![kw("WINDOW"), v("100")], vec![kw("WINDOW"), v("18446744073709551615")]];
            for s in selectors {
                for f in &froms {
                    for w in &windows {
                        ok.push(cat(&[&[v(s)], f, w]));
                    }
                }
            }
            bad.push(vec![]);
            for s in ["65536", "1,65536", "1,,2", "a", "", "1;2", "-1", "3-1", "1-", "1-65536"] {
                bad.push(vec![v(s)]);
            }
            bad.push(vec![v("*"), kw("WINDOW"), v("0")]);
            for n in nums_bad() {
                bad.push(vec![v("*"), kw("WINDOW"), v(n)]);
                bad.push(vec![v("5"), kw("FROM"), v(n)]);
                bad.push(vec![v("*"), kw("FROM"), kw("MAP"), v("1=1"), kw("DEFAULT"), v(n)]);
            }
            bad.push(vec![v("*"), kw("FROM")]);
            bad.push(vec![v("*"), kw("FROM"), kw("MAP")]);
            bad.push(vec![v("*"), kw("FROM"), kw("MAP"), v("1")]);
            bad.push(vec![v("*"), kw("FROM"), kw("MAP"), v("65536=1")]);
            bad.push(vec![v("*"), kw("FROM"), kw("MAP"), v("1=x")]);
            bad.push(vec![v("*"), kw("FROM"), kw("MAP"), kw("DEFAULT"), v("1")]);
            bad.push(vec![v("*"), kw("WINDOW"), v("5"), kw("FROM"), v("3")]);
            bad.push(vec![v("*"), v("5")]);
        }
    }
    let dedup = |v: Vec<Vec<T>>| -> Vec<Vec<T>> { v.into_iter().collect::<BTreeSet<_>>().into_iter().collect() };
    (dedup(ok), dedup(bad))
}

/// Near misses of one valid command: every single-token deletion, duplication and adjacent swap,
/// every substitution of a value token by a word of the command's grammar, every clause (keyword +
/// its value) repeated with the same and with a different value.
pub fn near_misses(cmd: Cmd, base: &[T]) -> Vec<Vec<T>> {
    let mut out: BTreeSet<Vec<T>> = BTreeSet::new();
    let n = base.len();
    for i in 0..n {
        let mut d = base.to_vec();
        d.remove(i);
        out.insert(d);
        let mut d = base.to_vec();
        d.insert(i, base[i].clone());
        out.insert(d);
        if i + 1 < n {
            let mut d = base.to_vec();
            d.swap(i, i + 1);
            out.insert(d);
        }
        if let T::Val(_) = base[i] {
            for w in cmd.all_words() {
                let mut d = base.to_vec();
                d[i] = T::Kw(w);
                out.insert(d);
            }
        }
        // clause duplication (only top-level option keywords followed by a value)
        if let T::Kw(k) = &base[i] {
            if cmd.keywords().contains(k) && i + 1 < n {
                if let T::Val(val) = &base[i + 1] {
                    for alt in [val.clone(), alt_value(k, val)] {
                        // appended at the end of the command and right after the original clause
                        let mut d = base.to_vec();
                        d.push(T::Kw(k));
                        d.push(T::Val(alt.clone()));
                        out.insert(d);
                        let mut d = base.to_vec();
                        d.insert(i + 2, T::Val(alt.clone()));
                        d.insert(i + 2, T::Kw(k));
                        out.insert(d);
                    }
                }
            }
        }
    }
    out.remove(base);
    out.into_iter().collect()
}

fn alt_value(k: &str, val: &[u8]) -> Vec<u8> {
    match k {
        "EVENT_ID" | "PARTITION_KEY" => {
            if val == UUID1.as_bytes() { UUID2.as_bytes().to_vec() } else { UUID1.as_bytes().to_vec() }
        }
        "EXPECTED_VERSION" | "TIMESTAMP" | "COUNT" | "WINDOW" | "FROM" => {
            if val == b"7" { b"8".to_vec() } else { b"7".to_vec() }
        }
        _ => b"other".to_vec(),
    }
}

/// A few extra near misses with empty / any first values, which is where "already specified" checks
/// that compare against a default value go wrong.
pub fn default_valued_duplicates(cmd: Cmd) -> Vec<Vec<T>> {
    let mut out = Vec::new();
    match cmd {
        Cmd::EAppend => {
            for (k, first, second) in [("PAYLOAD", "", "x"), ("METADATA", "", "x"), ("EXPECTED_VERSION", "any", "1"), ("EXPECTED_VERSION", "ANY", "empty")] {
                out.push(vec![v("s"), v("E"), T::Kw(k), v(first), T::Kw(k), v(second)]);
            }
        }
        Cmd::EMAppend => {
            for (k, first, second) in [("PAYLOAD", "", "x"), ("METADATA", "", "x"), ("EXPECTED_VERSION", "any", "1")] {
                out.push(vec![v(UUID1), v("s"), v("E"), T::Kw(k), v(first), T::Kw(k), v(second)]);
            }
        }
        _ => {}
    }
    out
}
