//! parsex — C21: documented and client-emitted commands parse as intended.
//!
//! Every command of a bounded enumeration of the documented grammar (and every near miss of it) is run
//! through the real `<Cmd>::parser().skip(eof())` and through an independent reference recogniser of the
//! documented grammar (`refp.rs`); the two must agree: both reject, or both accept with the same
//! request.  The literal examples of the server's doc-comments and of README.md are parsed as well, and
//! every public command builder of the Rust client is executed (against a recording fake server where
//! it needs a connection) and its frames are parsed by the real server parser.
mod client;
mod gen_;
mod real;
mod refp;

use std::collections::BTreeMap;

use gen_::{Case, T};
use real::FrameKind;
use refp::{Cmd, Denot};
use serde_json::{Value, json};
use vcommon::{Ctx, Distinct, Samples};

pub struct Stats {
    pub evals: std::sync::atomic::AtomicU64,
    pub accepted: std::sync::atomic::AtomicU64,
    pub rejected: std::sync::atomic::AtomicU64,
    pub per_cmd: std::sync::Mutex<BTreeMap<String, (u64, u64, u64)>>, // valid, invalid-values, near-misses
    pub distinct: Distinct,
    pub outcomes: Distinct,
    pub samples: Samples,
}

fn show(toks: &[Vec<u8>]) -> Vec<String> {
    toks.iter().map(|t| String::from_utf8_lossy(t).into_owned()).collect()
}

fn kw_shape(toks: &[T]) -> String {
    let s: Vec<&str> = toks.iter().filter_map(|t| if let T::Kw(k) = t { Some(*k) } else { None }).collect();
    if s.is_empty() { "-".into() } else { s.join("+") }
}

/// Compares the real parser with the reference on one token list.
#[allow(clippy::too_many_arguments)]
pub fn judge(ctx: &Ctx, st: &Stats, cmd: Cmd, toks: &[Vec<u8>], shape: &str, kind: FrameKind, origin: &str, expect_valid: Option<bool>) {
    use std::sync::atomic::Ordering::Relaxed;
    st.evals.fetch_add(1, Relaxed);
    let reference = refp::parse(cmd, toks);
    if let Err(e) = &reference {
        if e.starts_with("UNSPECIFIED") {
            return;
        }
    }
    if let Some(v) = expect_valid {
        if v != reference.is_ok() {
            vcommon::machinery_fail(&format!(
                "generator and reference disagree about validity of {} {:?} (generator says valid={v}, reference says {:?})",
                cmd.name(),
                show(toks),
                reference
            ));
        }
    }
    let got: Result<Result<Denot, String>, String> = vcommon::catch(|| real::parse(cmd, toks, kind));
    let mut h = vcommon::fnv(cmd.name().as_bytes());
    for t in toks {
        h = h.wrapping_mul(0x100000001b3) ^ vcommon::fnv(t);
    }
    st.distinct.add_hash(h);
    let case = json!({"command": cmd.name(), "args": show(toks), "args_hex": toks.iter().map(|t| t.iter().map(|b| format!("{b:02x}")).collect::<String>()).collect::<Vec<_>>(),
        "frame_kind": format!("{kind:?}"), "origin": origin});
    match (&reference, &got) {
        (_, Err(panic)) => ctx.violation(&format!("C21/{}/panic", cmd.name()), &format!("the parser panicked on {} {:?}: {panic}", cmd.name(), show(toks)), case),
        (Ok(want), Ok(Ok(have))) => {
            st.accepted.fetch_add(1, Relaxed);
            st.outcomes.add(&format!("{have:?}"));
            if want != have {
                ctx.violation(
                    &format!("C21/{}/misparsed/{origin}/{shape}", cmd.name()),
                    &format!("{} {:?} parsed into {have:?}, the documented grammar denotes {want:?}", cmd.name(), show(toks)),
                    case,
                );
            }
        }
        (Ok(want), Ok(Err(e))) => {
            st.rejected.fetch_add(1, Relaxed);
            ctx.violation(
                &format!("C21/{}/valid-rejected/{origin}/{shape}", cmd.name()),
                &format!("{} {:?} is a documented form (denoting {want:?}) but was rejected: {e}", cmd.name(), show(toks)),
                case,
            );
        }
        (Err(why), Ok(Ok(have))) => {
            st.accepted.fetch_add(1, Relaxed);
            let class: String = why.chars().map(|c| if c.is_ascii_alphanumeric() { c } else { '-' }).collect();
            ctx.violation(
                &format!("C21/{}/outside-grammar-accepted/{class}", cmd.name()),
                &format!("{} {:?} is outside the documented grammar ({why}) but was accepted as {have:?}", cmd.name(), show(toks)),
                case,
            );
        }
        (Err(_), Ok(Err(_))) => {
            st.rejected.fetch_add(1, Relaxed);
        }
    }
}

fn run_grammar(ctx: &Ctx, st: &Stats, thorough: bool) {
    let items: Vec<Cmd> = Cmd::ALL.to_vec();
    vcommon::par_for_each(&items, |_, &cmd| {
        let (ok, bad) = gen_::commands(cmd, thorough);
        let mut n_near = 0u64;
        for (list, valid) in [(&ok, true), (&bad, false)] {
            for toks in list {
                for case in [Case::Upper, Case::Lower, Case::Mixed] {
                    for kind in [FrameKind::Blob, FrameKind::Simple] {
                        let r = gen_::render(toks, case);
                        judge(ctx, st, cmd, &r, &kw_shape(toks), kind, if valid { "documented" } else { "invalid-value" }, Some(valid));
                    }
                }
            }
        }
        st.samples.push(json!({"command": cmd.name(), "documented_form": ok.last().map(|t| show(&gen_::render(t, Case::Upper))), "invalid_value_form": bad.last().map(|t| show(&gen_::render(t, Case::Upper)))}));
        let max_len = if thorough { 12 } else { 8 };
        for base in ok.iter().filter(|b| b.len() <= max_len) {
            for m in gen_::near_misses(cmd, base) {
                n_near += 1;
                let r = gen_::render(&m, Case::Upper);
                judge(ctx, st, cmd, &r, &kw_shape(&m), FrameKind::Blob, "near-miss", None);
                if thorough {
                    let r = gen_::render(&m, Case::Lower);
                    judge(ctx, st, cmd, &r, &kw_shape(&m), FrameKind::Simple, "near-miss", None);
                }
            }
        }
        for m in gen_::default_valued_duplicates(cmd) {
            n_near += 1;
            judge(ctx, st, cmd, &gen_::render(&m, Case::Upper), &kw_shape(&m), FrameKind::Blob, "near-miss", Some(false));
        }
        st.per_cmd.lock().unwrap().insert(cmd.name().to_string(), (ok.len() as u64, bad.len() as u64, n_near));
    });
}

// ---------------------------------------------------------------------------------------------
// documentation examples

/// Splits a documentation example line into tokens (single quotes group, `#` starts a comment).
fn tokenize(line: &str) -> Vec<String> {
    let mut out = Vec::new();
    let mut cur = String::new();
    let mut in_q = false;
    let mut has = false;
    let mut chars = line.chars().peekable();
    while let Some(c) = chars.next() {
        if in_q {
            if c == '\'' {
                in_q = false;
            } else {
                cur.push(c);
            }
        } else if c == '\'' {
            in_q = true;
            has = true;
        } else if c == '#' && !has && cur.is_empty() {
            break;
        } else if c.is_whitespace() {
            if has || !cur.is_empty() {
                out.push(std::mem::take(&mut cur));
                has = false;
            }
        } else {
            cur.push(c);
        }
    }
    if has || !cur.is_empty() {
        out.push(cur);
    }
    out
}

fn doc_examples() -> Vec<(String, String)> {
    let mut files: Vec<String> = vec!["/repo/README.md".into()];
    if let Ok(rd) = std::fs::read_dir("/repo/crates/sierradb-server/src/request") {
        for e in rd.flatten() {
            files.push(e.path().display().to_string());
        }
    }
    files.sort();
    let mut out = Vec::new();
    for f in files {
        let Ok(text) = std::fs::read_to_string(&f) else { continue };
        for line in text.lines() {
            let l = line.trim_start().trim_start_matches("///").trim();
            let Some(first) = l.split_whitespace().next() else { continue };
            if Cmd::ALL.iter().any(|c| c.name() == first) && !l.contains('<') && !l.contains("...") && !l.contains('`') {
                out.push((f.clone(), l.to_string()));
            }
        }
    }
    out
}

fn run_docs(ctx: &Ctx, st: &Stats) -> (u64, Vec<Value>) {
    let mut n = 0;
    let mut listed = Vec::new();
    for (file, line) in doc_examples() {
        let toks = tokenize(&line);
        let Some(cmd) = Cmd::from_name(&toks[0]) else { continue };
        let mut args: Vec<Vec<u8>> = toks[1..].iter().map(|s| s.as_bytes().to_vec()).collect();
        // the documentation uses placeholders such as `abc-def` or `pk1` where a UUID is meant
        let mut substituted = false;
        for i in 1..args.len() {
            if args[i - 1].eq_ignore_ascii_case(b"PARTITION_KEY") && refp::parse_uuid(&args[i]).is_none() {
                let u = uuid::Uuid::new_v5(&uuid::Uuid::NAMESPACE_OID, &args[i]);
                args[i] = u.to_string().into_bytes();
                substituted = true;
            }
        }
        n += 1;
        if listed.len() < 60 {
            listed.push(json!({"file": file, "line": line, "placeholder_uuid_substituted": substituted}));
        }
        let shape: Vec<String> = args.iter().filter(|a| cmd.all_words().iter().any(|k| a.eq_ignore_ascii_case(k.as_bytes()))).map(|a| String::from_utf8_lossy(a).to_uppercase()).collect();
        let shape = if shape.is_empty() { "-".to_string() } else { shape.join("+") };
        judge(ctx, st, cmd, &args, &shape, FrameKind::Blob, "doc-example", Some(true));
    }
    (n, listed)
}

fn main() {
    vcommon::install_quiet_panic_hook();
    let args = vcommon::parse_args();
    if args.property != "C21" {
        vcommon::machinery_fail("parsex serves C21 only");
    }
    let mut ctx = Ctx::new("C21", args.tier, "exploration");
    let st = Stats {
        evals: Default::default(),
        accepted: Default::default(),
        rejected: Default::default(),
        per_cmd: Default::default(),
        distinct: Distinct::new(),
        outcomes: Distinct::new(),
        samples: Samples::new(16),
    };
    if let Some(path) = &args.replay {
        ctx.replay_mode = true;
        let case = vcommon::load_replay(path);
        if case.get("client_call").is_some() {
            client::run(&ctx, &st, Some(case["client_call"].as_str().unwrap_or("").to_string()));
        } else {
            let cmd = Cmd::from_name(case["command"].as_str().unwrap_or("")).unwrap_or_else(|| vcommon::machinery_fail("replay lacks command"));
            let toks: Vec<Vec<u8>> = case["args_hex"]
                .as_array()
                .map(|a| a.iter().map(|h| { let h = h.as_str().unwrap_or(""); (0..h.len() / 2).map(|i| u8::from_str_radix(&h[2 * i..2 * i + 2], 16).unwrap_or(0)).collect() }).collect())
                .unwrap_or_default();
            let kind = if case["frame_kind"].as_str() == Some("Simple") { FrameKind::Simple } else { FrameKind::Blob };
            let origin = case["origin"].as_str().unwrap_or("replay").to_string();
            let shape: Vec<String> = toks.iter().filter(|a| cmd.all_words().iter().any(|k| a.eq_ignore_ascii_case(k.as_bytes()))).map(|a| String::from_utf8_lossy(a).to_uppercase()).collect();
            let shape = if shape.is_empty() { "-".to_string() } else { shape.join("+") };
            for _ in 0..2 {
                judge(&ctx, &st, cmd, &toks, &shape, kind, &origin, None);
            }
            println!("replay: real parser says {:?}", vcommon::catch(|| real::parse(cmd, &toks, kind)));
            println!("replay: reference says  {:?}", refp::parse(cmd, &toks));
        }
        ctx.finish(json!({"replay": path.display().to_string()}), vec![]);
    }
    let thorough = args.tier.is_thorough();
    run_grammar(&ctx, &st, thorough);
    let (n_docs, docs) = run_docs(&ctx, &st);
    let client_info = client::run(&ctx, &st, None);
    use std::sync::atomic::Ordering::Relaxed;
    let per = st.per_cmd.lock().unwrap().clone();
    let coverage = json!({
        "evaluations": st.evals.load(Relaxed),
        "distinct_nontrivial": st.distinct.len(),
        "rule": "every (command, token list) pair produced by the bounded grammar enumeration, its case/frame-kind variants, its near misses, the documentation examples and the client builders; distinct = distinct (command, argument bytes); all are non-trivial in the sense that each is judged against the independent reference recogniser",
        "exhaustive": true,
        "samples": st.samples.take(),
        "accepted_by_real_parser": st.accepted.load(Relaxed),
        "rejected_by_real_parser": st.rejected.load(Relaxed),
        "distinct_parsed_requests": st.outcomes.len(),
        "per_command": per.iter().map(|(k, v)| json!({"command": k, "documented_forms": v.0, "invalid_value_forms": v.1, "near_misses": v.2})).collect::<Vec<_>>(),
        "bounds": {
            "repetition": "up to 3 streams / events / map entries per command",
            "option_orders": if thorough { "every ordered selection of up to 4 distinct option clauses, plus all clauses in every rotation and its reverse" } else { "every ordered selection of up to 3 distinct option clauses, plus all clauses in every rotation and its reverse" },
            "keyword_case": ["UPPER", "lower", "MiXeD"],
            "frame_kinds": ["BlobString", "SimpleString"],
            "near_miss_kinds": ["single-token deletion", "single-token duplication", "adjacent swap", "value replaced by each word of the command's grammar", "option clause repeated (same and different value, adjacent and at the end)", "option repeated after a default-valued first occurrence"],
            "near_miss_base_length": if thorough { 12 } else { 8 },
        },
        "documentation_examples": {"count": n_docs, "lines": docs},
        "client": client_info,
    });
    ctx.finish(
        coverage,
        vec![
            "the reference recogniser (refp.rs) is the reading of the documented grammar; its conventions are listed at the top of that file".into(),
            "value alphabets are boundary sets; forms the documentation leaves open (UUIDs without hyphens, numbers with a leading +, whitespace-padded values, map entries for a stream subscribed under two partition keys) are not generated".into(),
        ],
    )
}
