//! C03 — stream and partition scans are exact, ordered and gapless.
//!
//! Layouts x queries: every history of accepted appends up to a depth over record shapes that move
//! segment and cache-block boundaries; for every layout, every scan query (stream / partition,
//! every start position including beyond the end and u64::MAX, both directions, batch sizes
//! 1, 2, 3, 50 and single-step `next()`), in the open segment, in sealed segments right after the
//! rollover, after the background index flush, and after reopen.

use std::collections::BTreeSet;
use std::time::Duration;

use serde::{Deserialize, Serialize};
use serde_json::json;
use sierradb::IterDirection;
use sierradb::bucket::segment::{CommittedEvents, EventRecord};
use vcommon::model::MEvent;
use vcommon::workers::WorkerOut;
use vcommon::{Args, Tier};

use crate::harness::*;
use crate::{Plan, drive};

#[derive(Serialize, Deserialize, Clone, Debug)]
pub struct Case {
    pub cfg: DbCfg,
    pub layout: Vec<TxS>,
    pub reopen: bool,
    /// single query to replay (None = all queries)
    #[serde(default)]
    pub only: Option<Query>,
    /// put in front of every stream id ("s0", "s1", ...) of the layout
    #[serde(default)]
    pub stream_prefix: String,
}

#[derive(Serialize, Deserialize, Clone, Debug, PartialEq)]
pub struct Query {
    pub target: Target,
    pub start: u64,
    pub reverse: bool,
    /// 0 = consume with next()
    pub batch: usize,
    pub phase: String,
}

#[derive(Serialize, Deserialize, Clone, Debug, PartialEq)]
pub enum Target {
    Stream(u8),
    Partition(u8),
}

pub fn shapes(full: bool) -> Vec<TxS> {
    let mut v = vec![
        TxS::single(0, 0, Size::Tiny),
        TxS::single(0, 0, Size::Block),
        TxS::multi(0, &[0, 1], Size::Tiny),
        TxS::multi(0, &[0, 0], Size::Tiny),
        TxS::single(0, 0, Size::Big),
        TxS::multi(0, &[0, 1, 0], Size::Tiny),
    ];
    if full {
        v.extend([TxS::single(1, 2, Size::Tiny), TxS::multi(0, &[1, 0], Size::Block), TxS::single(0, 1, Size::Kb5), TxS::single(0, 0, Size::Small)]);
    }
    v
}

fn layouts(shapes: &[TxS], depth: usize, min_len: usize) -> Vec<Vec<TxS>> {
    let mut out = Vec::new();
    let mut level: Vec<Vec<TxS>> = vec![vec![]];
    for d in 1..=depth {
        let mut next = Vec::new();
        for h in &level {
            for s in shapes {
                let mut n = h.clone();
                n.push(s.clone());
                next.push(n);
            }
        }
        if d >= min_len {
            out.extend(next.iter().cloned());
        }
        level = next;
    }
    out
}

/// A sealed segment crowded with streams whose ids all extend the id of a stream that lives in an older segment
/// ("s1" in segment 0; "s10".."s19", "s100".."s199" in segment 1, which "s1" is absent from): lookups of "s1" in
/// segment 1 go through its bloom filter (sized for far fewer streams, so it answers "maybe") and its MPHF index
/// (which maps an absent id to some slot), and only the comparison with the id stored in the slot tells them apart.
fn crowded_layout() -> Vec<TxS> {
    let mut l = vec![TxS::single(0, 1, Size::Tiny), TxS::single(0, 1, Size::Tiny), TxS::single(0, 1, Size::Tiny)];
    l.extend([TxS::single(0, 0, Size::Block), TxS::single(0, 0, Size::Block), TxS::single(0, 0, Size::Block)]);
    for s in (10u8..20).chain(100..200) {
        l.push(TxS::single(0, s, Size::Tiny));
    }
    l.extend([TxS::single(0, 0, Size::Block), TxS::single(0, 0, Size::Block)]);
    l
}

pub fn cases(tier: Tier) -> Vec<Case> {
    let mut v = Vec::new();
    let every = SyncMode::EveryWrite;
    for reopen in [false, true] {
        // with a long common prefix every proper prefix of it is a stream id that every stored id extends
        for prefix in ["", "account-stream-"] {
            v.push(Case { cfg: DbCfg::simple(MIN_SEG, true, every), layout: crowded_layout(), reopen, only: None, stream_prefix: prefix.to_string() });
            if tier.is_thorough() {
                v.push(Case { cfg: DbCfg::simple(MIN_SEG, false, every), layout: crowded_layout(), reopen, only: None, stream_prefix: prefix.to_string() });
            }
        }
    }
    if tier.is_thorough() {
        for (seg, comp) in [(MIN_SEG, true), (MIN_SEG, false), (192 * 1024, true), (1024 * 1024, true)] {
            for l in layouts(&shapes(true), 3, 1) {
                for reopen in [false, true] {
                    v.push(Case { cfg: DbCfg::simple(seg, comp, every), layout: l.clone(), reopen, only: None, stream_prefix: String::new() });
                }
            }
        }
        for l in layouts(&shapes(false), 5, 4) {
            for reopen in [false, true] {
                v.push(Case { cfg: DbCfg::simple(MIN_SEG, true, every), layout: l.clone(), reopen, only: None, stream_prefix: String::new() });
            }
        }
        for l in layouts(&shapes(false)[..5], 7, 6) {
            v.push(Case { cfg: DbCfg::simple(MIN_SEG, false, every), layout: l, reopen: false, only: None, stream_prefix: String::new() });
        }
    } else {
        for l in layouts(&shapes(false), 3, 1) {
            for reopen in [false, true] {
                v.push(Case { cfg: DbCfg::simple(MIN_SEG, true, every), layout: l.clone(), reopen, only: None, stream_prefix: String::new() });
            }
        }
        for l in layouts(&shapes(false)[..4], 4, 4) {
            v.push(Case { cfg: DbCfg::simple(MIN_SEG, false, every), layout: l, reopen: false, only: None, stream_prefix: String::new() });
        }
    }
    v
}

fn flatten(groups: &[CommittedEvents]) -> Vec<EventRecord> {
    groups.iter().cloned().flat_map(|g| g.into_iter()).collect()
}

/// Judges one scan result.  `all` = the model's events for the target (stream: the stream's events
/// in version order, partition: in sequence order); position of an event = its index in `all`.
fn judge(q: &Query, all: &[&MEvent], groups: &[CommittedEvents], h: &H) -> Option<(String, String)> {
    let pos_of = |r: &EventRecord| -> Option<usize> { all.iter().position(|m| m.id == r.event_id.as_u128()) };
    if !q.reverse {
        let recs = flatten(groups);
        let want: Vec<&MEvent> = all.iter().skip(q.start.min(all.len() as u64) as usize).copied().collect();
        if let Some(d) = diff_list(&recs, &want) {
            let kind = if recs.len() < want.len() {
                "forward-missing"
            } else if recs.len() > want.len() {
                "forward-extra"
            } else {
                "forward-wrong"
            };
            return Some((kind.into(), d));
        }
        return None;
    }
    // reverse: exactly the events at or before `start`, grouped by transaction; a group may repeat its own
    // events (and carry its own siblings beyond `start`); groups in decreasing order.
    let limit = if q.start == u64::MAX { all.len() } else { (q.start.saturating_add(1)).min(all.len() as u64) as usize };
    let required: BTreeSet<u128> = all[..limit].iter().map(|m| m.id).collect();
    let required_txs: BTreeSet<usize> = all[..limit].iter().map(|m| m.tx_index).collect();
    let mut seen: BTreeSet<u128> = BTreeSet::new();
    let mut last_tx_max_pos: Option<usize> = None;
    let mut last_tx: Option<usize> = None;
    for (gi, g) in groups.iter().enumerate() {
        let recs: Vec<EventRecord> = g.clone().into_iter().collect();
        if recs.is_empty() {
            return Some(("reverse-empty-group".into(), format!("group {gi} is empty")));
        }
        let mut txs = BTreeSet::new();
        let mut maxpos = 0usize;
        for r in &recs {
            let Some(p) = pos_of(r) else {
                return Some(("reverse-foreign-event".into(), format!("group {gi} holds event {} (seq {}, stream {}) which is not part of the scanned target", r.event_id, r.partition_sequence, r.stream_id)));
            };
            if let Some(d) = diff_event(r, all[p]) {
                return Some(("reverse-wrong".into(), format!("group {gi}: {d}")));
            }
            txs.insert(all[p].tx_index);
            maxpos = maxpos.max(p);
            seen.insert(all[p].id);
        }
        if txs.len() != 1 {
            return Some(("reverse-mixed-group".into(), format!("group {gi} mixes events of transactions {txs:?}")));
        }
        let t = *txs.iter().next().unwrap();
        if !required_txs.contains(&t) {
            return Some(("reverse-extra".into(), format!("group {gi} belongs to transaction #{t}, all of whose events lie after the start position {}", q.start)));
        }
        if let (Some(lt), Some(lp)) = (last_tx, last_tx_max_pos) {
            if t != lt && maxpos >= lp {
                return Some(("reverse-order".into(), format!("group {gi} (transaction #{t}, up to position {maxpos}) follows a group of transaction #{lt} (position {lp}): not decreasing")));
            }
            if t == lt {
                // the same transaction again: allowed ("a group may repeat its own events")
            }
        }
        if last_tx != Some(t) {
            last_tx_max_pos = Some(maxpos);
        }
        last_tx = Some(t);
    }
    let missing: Vec<u128> = required.difference(&seen).copied().collect();
    if !missing.is_empty() {
        let m = h.model.find_event(missing[0]).unwrap();
        return Some(("reverse-missing".into(), format!("{} of {} events at or before position {} were not returned, e.g. seq {} version {} of {}", missing.len(), required.len(), q.start, m.seq, m.version, m.stream)));
    }
    None
}

fn run_queries(h: &H, case: &Case, phase: &str, out: &mut WorkerOut) -> bool {
    let mut targets: Vec<(Target, Vec<&MEvent>, String, u16)> = Vec::new();
    for s in 0..4u8 {
        let name = stream_name(&h.prefix, s);
        let pk = if s == 2 { 1 } else { 0 };
        targets.push((Target::Stream(s), h.model.stream_events(&name), name, partition_of(pk)));
    }
    for pk in 0..2u8 {
        let part = partition_of(pk);
        targets.push((Target::Partition(pk), h.model.partition_events(part).iter().collect(), format!("partition {part}"), part));
    }
    for (target, all, name, part) in &targets {
        let n = all.len() as u64;
        let mut starts: Vec<u64> = (0..=n + 1).collect();
        starts.push(u64::MAX);
        for &start in &starts {
            for reverse in [false, true] {
                for batch in [1usize, 2, 3, 50, 0] {
                    let q = Query { target: target.clone(), start, reverse, batch, phase: phase.to_string() };
                    if let Some(only) = &case.only {
                        if *only != q {
                            continue;
                        }
                    }
                    out.evals += 1;
                    let dir = if reverse { IterDirection::Reverse } else { IterDirection::Forward };
                    let res = vcommon::catch(|| match target {
                        Target::Stream(_) => h.scan_stream(name, *part, start, dir, batch),
                        Target::Partition(_) => h.scan_partition(*part, start, dir, batch),
                    })
                    .unwrap_or_else(|p| Err(format!("scan panicked: {p}")));
                    let verdict = match res {
                        Err(e) => Some(("scan-error".to_string(), e)),
                        Ok(groups) => judge(&q, all, &groups, h),
                    };
                    if let Some((kind, detail)) = verdict {
                        let tk = match target {
                            Target::Stream(_) => "stream",
                            Target::Partition(_) => "partition",
                        };
                        let segs = segment_count(h);
                        let key = format!("C03/{kind}/{tk}/{}/{}", if segs > 1 { "multi-segment" } else { "single-segment" }, phase);
                        out.outcome(key.clone());
                        let mut c = case.clone();
                        c.only = Some(q.clone());
                        out.violation(
                            &key,
                            &format!("{detail} [{name} start={start} reverse={reverse} batch={batch} phase={phase}; {} layout {}]", case.cfg.label(), serde_json::to_string(&case.layout).unwrap()),
                            serde_json::to_value(&c).unwrap(),
                        );
                        return false;
                    }
                }
            }
        }
    }
    true
}

/// The stream index of every sealed segment, asked directly: for every stream id present anywhere in the database,
/// every proper prefix of it and two extensions of it, `ClosedStreamIndex::get_key` must answer with a record exactly
/// when the segment's own event file holds events of that id, and then with their version range.  (What a scan does
/// with a wrong answer - start in the wrong segment, stop early - depends on bloom filter and hash accidents; the
/// answer itself does not.)  Requires the index files to be complete (after the background flush / a reopen).
fn probe_closed_stream_indexes(h: &H, case: &Case, phase: &str, out: &mut WorkerOut) -> bool {
    use sierradb::bucket::segment::{BucketSegmentReader, Record};
    use sierradb::bucket::stream_index::ClosedStreamIndex;
    use sierradb::bucket::{BucketSegmentId, SegmentKind};
    use std::collections::BTreeMap;
    let segs_dir = h.dir.join("buckets").join("00000").join("segments");
    let mut ids: Vec<u32> = std::fs::read_dir(&segs_dir).into_iter().flatten().filter_map(|e| e.ok()?.file_name().to_str()?.parse().ok()).collect();
    ids.sort();
    ids.pop(); // the live segment has no closed index
    if ids.is_empty() {
        return true;
    }
    // ground truth per segment from the event files
    let mut truth: Vec<(u32, BTreeMap<String, (u64, u64)>)> = Vec::new();
    let mut all_ids: BTreeSet<String> = BTreeSet::new();
    for sid in &ids {
        let bsid = BucketSegmentId::new(0, *sid);
        let Ok(mut rd) = BucketSegmentReader::open(SegmentKind::Events.get_path(&h.dir, bsid), None) else { return true };
        let mut m: BTreeMap<String, (u64, u64)> = BTreeMap::new();
        let mut it = rd.iter();
        while let Ok(Some(rec)) = it.next_record() {
            if let Record::Event(e) = rec {
                let name = e.stream_id.to_string();
                let v = m.entry(name.clone()).or_insert((e.stream_version, e.stream_version));
                v.0 = v.0.min(e.stream_version);
                v.1 = v.1.max(e.stream_version);
                all_ids.insert(name);
            }
        }
        truth.push((*sid, m));
    }
    for ev in h.model.partition_events(partition_of(0)).iter().chain(h.model.partition_events(partition_of(1)).iter()) {
        all_ids.insert(ev.stream.clone());
    }
    let mut probes: BTreeSet<String> = BTreeSet::new();
    for id in &all_ids {
        for l in 1..=id.len() {
            probes.insert(id[..l].to_string());
        }
        probes.insert(format!("{id}0"));
        probes.insert(format!("{id}9"));
    }
    for (sid, m) in &truth {
        let bsid = BucketSegmentId::new(0, *sid);
        let path = SegmentKind::StreamIndex.get_path(&h.dir, bsid);
        let mut idx = match ClosedStreamIndex::open(bsid, &path, case.cfg.seg) {
            Ok(i) => i,
            Err(e) => {
                out.violation(&format!("C03/closed-stream-index/open-failed/{phase}"), &format!("segment {sid}: {e} [{}]", case.cfg.label()), serde_json::to_value(case).unwrap());
                return false;
            }
        };
        for pid in &probes {
            out.evals += 1;
            let got = idx.get_key(pid).map(|r| r.map(|r| (r.version_min, r.version_max)));
            let want = m.get(pid).copied();
            let bad = match &got {
                Err(e) => Some(format!("error {e}")),
                Ok(g) if *g != want => Some(format!("answered {g:?}, the segment's events say {want:?}")),
                _ => None,
            };
            if let Some(b) = bad {
                let kind = if want.is_none() { "record-for-absent-stream" } else { "wrong-or-missing-record" };
                out.violation(
                    &format!("C03/closed-stream-index/{kind}/{phase}"),
                    &format!("sealed segment {sid}: lookup of stream id {pid:?} {b} ({} streams in the segment) [{} layout of {} appends]", m.len(), case.cfg.label(), case.layout.len()),
                    serde_json::to_value(case).unwrap(),
                );
                return false;
            }
        }
    }
    true
}

fn segment_count(h: &H) -> usize {
    std::fs::read_dir(h.dir.join("buckets").join("00000").join("segments")).map(|d| d.count()).unwrap_or(0)
}

fn wait_for_index_flush(h: &H) {
    // sealed segments' index files are written by a background pool; wait until none of them is empty
    let segs = h.dir.join("buckets").join("00000").join("segments");
    let deadline = std::time::Instant::now() + Duration::from_secs(40);
    loop {
        let mut ids: Vec<u32> = std::fs::read_dir(&segs).into_iter().flatten().filter_map(|e| e.ok()?.file_name().to_str()?.parse().ok()).collect();
        ids.sort();
        ids.pop(); // the live segment's files stay empty
        let pending = ids.iter().any(|id| {
            ["index.eidx", "partition.pidx", "stream.sidx"].iter().any(|f| std::fs::metadata(segs.join(format!("{id:010}")).join(f)).map(|m| m.len() == 0).unwrap_or(true))
        });
        if !pending || std::time::Instant::now() > deadline {
            break;
        }
        std::thread::sleep(Duration::from_millis(2));
    }
    std::thread::sleep(Duration::from_millis(3));
}

pub fn run_case(case: &Case, out: &mut WorkerOut) {
    let mut h = match H::new(case.cfg.clone(), "c03") {
        Ok(h) => h,
        Err(e) => vcommon::machinery_fail(&format!("cannot open fresh database: {e}")),
    };
    h.prefix = case.stream_prefix.clone();
    for (i, t) in case.layout.iter().enumerate() {
        out.transitions += 1;
        match h.append(t) {
            Ok(Some(_)) => {}
            Ok(None) => {
                // every shape is a valid append; a rejection here is C01/C02 territory, skip the layout
                out.outcome("layout-step-rejected");
                return;
            }
            Err(p) => {
                out.outcome(format!("layout-problem/{}", p.kind));
                let key = format!("C03/layout-append/{}", p.kind);
                out.violation(&key, &format!("{} at layout step {i} [{}]", p.detail, case.cfg.label()), serde_json::to_value(case).unwrap());
                return;
            }
        }
    }
    out.state(h.model.signature() ^ (segment_count(&h) as u64) << 56);
    let want_phase = case.only.as_ref().map(|q| q.phase.clone());
    let phases_ok = |p: &str| want_phase.as_deref().map(|w| w == p).unwrap_or(true);
    if !case.reopen {
        if phases_ok("live") && !run_queries(&h, case, "live", out) {
            return;
        }
        if segment_count(&h) > 1 && phases_ok("flushed") {
            wait_for_index_flush(&h);
            if !run_queries(&h, case, "flushed", out) {
                return;
            }
            if case.only.is_none() && !probe_closed_stream_indexes(&h, case, "flushed", out) {
                return;
            }
        }
    } else {
        wait_for_index_flush(&h);
        if let Err(e) = h.reopen() {
            out.violation("C03/reopen-failed", &format!("{e} [{}]", case.cfg.label()), serde_json::to_value(case).unwrap());
            return;
        }
        if phases_ok("reopened") && !run_queries(&h, case, "reopened", out) {
            return;
        }
        if case.only.is_none() && !probe_closed_stream_indexes(&h, case, "reopened", out) {
            return;
        }
    }
    out.outcome("ok");
    if out.cases_done % 100 == 0 {
        out.sample(json!({"cfg": case.cfg, "layout": case.layout, "reopen": case.reopen}));
    }
}

pub fn run(args: Args) {
    let tier = args.tier;
    let plan = Plan { property: "C03", level: "model_checking", cases: cases(tier), cap: if tier.is_thorough() { Duration::from_secs(1500) } else { Duration::from_secs(50) } };
    drive(args, plan, run_case, |m, total| {
        (
            json!({
                "states": m.states.len(),
                "transitions": m.transitions + m.evals,
                "traces_validated_against_impl": m.cases_done,
                "samples": m.samples,
                "exhaustive": !m.capped,
                "layouts_enumerated": total,
                "layouts_executed": m.cases_done,
                "scan_queries": m.evals,
                "distinct_observed_outcomes": m.outcomes.len(),
                "shapes": shapes(tier.is_thorough()).iter().map(|o| serde_json::to_value(o).unwrap()).collect::<Vec<_>>(),
                "rule": "layouts = all histories of accepted appends up to the stated depth over the shapes; per layout all queries: 4 streams (one missing) + 2 partitions x starts 0..=len+1 and u64::MAX x {forward, reverse} x batch {1,2,3,50,next()} x phases {live, after index flush | reopened}; states = distinct (model, segment count)",
            }),
            vec!["reverse oracle as weak as the statement: groups of one transaction each, decreasing, may repeat own events, union = events at or before the start".into()],
        )
    })
}
