//! C23 (identifier bit layout and routing) and C25 (expected-version algebra): complete
//! enumeration of the stated input domains of pure functions, plus the differential
//! "store agreement" part of C25 on real databases.

use std::sync::atomic::{AtomicU64, Ordering};

use serde_json::json;
use sierradb::StreamId;
use sierradb::bucket::segment::{BucketSegmentWriter, EventRecord, LongBytes, RawEvent, RecordHeader, ShortString};
use sierradb::bucket::{BucketSegmentId, SegmentKind};
use sierradb::database::{CurrentVersion, ExpectedVersion, NewEvent, Transaction, VersionGap};
use sierradb::id::*;
use smallvec::smallvec;
use uuid::Uuid;
use vcommon::{Args, Ctx, Samples, catch, par_for_each};

use crate::harness::{DbCfg, H, MIN_SEG, SyncMode, builder, fresh_dir, new_rt};

fn key_with_hash(h: u16, salt: u64) -> Uuid {
    Uuid::from_u128((0xBEEFu128 << 100) | (0x7u128 << 64) | (0x2u128 << 62) | ((h as u128) << 46) | (salt as u128 & 0xFFFF_FFFF))
}

fn new_event(id: Uuid) -> NewEvent {
    NewEvent { event_id: id, stream_id: StreamId::new("s").unwrap(), stream_version: ExpectedVersion::Any, event_name: "E".into(), timestamp: 1, metadata: vec![], payload: vec![] }
}

pub fn c23(args: Args) {
    let mut ctx = Ctx::new("C23", args.tier, "exploration");
    let thorough = args.tier.is_thorough();
    let evals = AtomicU64::new(0);
    let nontrivial = AtomicU64::new(0);
    let samples = Samples::new(6);

    let check_id = |h: u16, id: Uuid| -> Option<(String, String)> {
        if uuid_to_partition_hash(id) != h {
            return Some(("hash-roundtrip".into(), format!("uuid_to_partition_hash({id}) = {} but the id was generated for hash {h}", uuid_to_partition_hash(id))));
        }
        if !validate_event_id(id, h) {
            return Some(("validate".into(), format!("validate_event_id({id}, {h}) is false")));
        }
        for hp in [h, h.wrapping_add(1), h.wrapping_sub(1)] {
            let ok = Transaction::new(key_with_hash(hp, 1), hp % 1024, smallvec![new_event(id)]).is_ok();
            if ok != (hp == h) {
                return Some(("transaction-validation".into(), format!("Transaction::new with a partition key of hash {hp} and event id of hash {h}: accepted = {ok}")));
            }
        }
        None
    };

    // bit i of `pattern` set = event i carries a foreign hash (h+1, or h-1 for the last event)
    let check_multi = |h: u16, n: usize, pattern: u32| -> Option<(String, String)> {
        let mut evs = smallvec::SmallVec::<[NewEvent; 4]>::new();
        for i in 0..n {
            let foreign = pattern & (1 << i) != 0;
            let hh = if !foreign { h } else if i + 1 == n { h.wrapping_sub(1) } else { h.wrapping_add(1) };
            let id = catch(|| uuid_v7_with_partition_hash(hh)).ok()?;
            evs.push(new_event(id));
        }
        let ok = Transaction::new(key_with_hash(h, 1), h % 1024, evs).is_ok();
        if ok != (pattern == 0) {
            return Some((
                format!("transaction-validation/multi-event/{}", if ok { "foreign-id-accepted" } else { "matching-ids-rejected" }),
                format!("Transaction::new with a partition key of hash {h} and {n} events whose ids carry {} hashes (bit i of {pattern:#b} = event i foreign): accepted = {ok}", if pattern == 0 { "only matching" } else { "some foreign" }),
            ));
        }
        None
    };

    if let Some(rp) = &args.replay {
        ctx.replay_mode = true;
        let c = vcommon::load_replay(rp);
        if let (Some(h), Some(n), Some(pt)) = (c["hash"].as_u64(), c["events"].as_u64(), c["foreign_pattern"].as_u64()) {
            if let Some((k, d)) = check_multi(h as u16, n as usize, pt as u32) {
                println!("replay: {d}");
                ctx.violation(&format!("C23/{k}"), &d, c.clone());
            }
        } else if let (Some(h), Some(id)) = (c["hash"].as_u64(), c["id"].as_str()) {
            if let Some((k, d)) = check_id(h as u16, id.parse().unwrap()) {
                println!("replay: {d}");
                ctx.violation(&format!("C23/{k}"), &d, c.clone());
            }
        } else {
            println!("replay: flag / routing cases are deterministic; re-running the full enumeration");
        }
        if c.get("hash").is_some() {
            ctx.finish(json!({"evaluations":1,"distinct_nontrivial":2,"rule":"replay","samples":[c]}), vec![]);
        }
    }

    // 1. generated ids, all 65 536 hashes
    let per = if thorough { 32 } else { 6 };
    let hashes: Vec<u32> = (0..65536).collect();
    par_for_each(&hashes, |_, &h| {
        let h = h as u16;
        for k in 0..per {
            let id = match catch(|| uuid_v7_with_partition_hash(h)) {
                Ok(id) => id,
                Err(p) => {
                    ctx.violation("C23/panic", &format!("uuid_v7_with_partition_hash({h}) panicked: {p}"), json!({"hash": h}));
                    continue;
                }
            };
            if let Some((kk, d)) = check_id(h, id) {
                ctx.violation(&format!("C23/{kk}"), &d, json!({"hash": h, "id": id.to_string()}));
            }
            if h % 8192 == 17 && k == 0 {
                samples.push(json!({"hash": h, "id": id.to_string()}));
            }
        }
        evals.fetch_add(per as u64 * 6, Ordering::Relaxed);
        nontrivial.fetch_add(per as u64, Ordering::Relaxed);
    });

    // 1b. multi-event transactions: for 256 spread hashes (thorough: all), every non-empty pattern of matching / foreign
    // event ids over 2 and 3 events: accepted exactly when every id carries the key's hash
    let step = if thorough { 1 } else { 256 };
    let multi_hashes: Vec<u32> = (0..65536).step_by(step).collect();
    par_for_each(&multi_hashes, |_, &h| {
        let h = h as u16;
        for n in [2usize, 3] {
            for pattern in 0..(1u32 << n) {
                evals.fetch_add(1, Ordering::Relaxed);
                if let Some((k, d)) = check_multi(h, n, pattern) {
                    ctx.violation(&format!("C23/{k}"), &d, json!({"hash": h, "events": n, "foreign_pattern": pattern}));
                }
            }
        }
        nontrivial.fetch_add(12, Ordering::Relaxed);
    });

    // 2. flag functions: every value of every byte on three fills, walking one / walking zero
    let flag_mask: u128 = 1u128 << 63; // bit 7 of byte 8
    let mut patterns: Vec<u128> = Vec::new();
    for fill in [0x00u8, 0xFF, 0xAA, 0x55] {
        for byte in 0..16 {
            for v in 0..=255u8 {
                let mut b = [fill; 16];
                b[byte] = v;
                patterns.push(u128::from_be_bytes(b));
            }
        }
    }
    for bit in 0..128 {
        patterns.push(1u128 << bit);
        patterns.push(!(1u128 << bit));
    }
    for &p in &patterns {
        let u = Uuid::from_u128(p);
        for flag in [true, false] {
            evals.fetch_add(1, Ordering::Relaxed);
            let s = set_uuid_flag(u, flag);
            let mut bad = None;
            if get_uuid_flag(&s) != flag {
                bad = Some("flag read-back differs from what was set");
            } else if (s.as_u128() ^ p) & !flag_mask != 0 {
                bad = Some("bits other than the flag bit changed");
            } else if uuid_to_partition_hash(s) != uuid_to_partition_hash(u) {
                bad = Some("embedded partition hash changed");
            } else if set_uuid_flag(s, flag) != s {
                bad = Some("not idempotent");
            } else if (s.as_u128() & flag_mask != 0) != flag {
                bad = Some("flag is not stored in bit 7 of byte 8");
            }
            if let Some(b) = bad {
                ctx.violation("C23/flag", &format!("set_uuid_flag({u}, {flag}) = {s}: {b}"), json!({"uuid": u.to_string(), "flag": flag}));
            }
        }
    }
    nontrivial.fetch_add(patterns.len() as u64, Ordering::Relaxed);
    samples.push(json!({"flag_pattern": Uuid::from_u128(patterns[300]).to_string()}));

    // 3. routing agreement: ids, keys and partitions derived from the same key
    let ps: Vec<u16> = vec![1, 2, 3, 5, 8, 32, 1000, 1024, 65535];
    par_for_each(&hashes, |_, &h| {
        let h = h as u16;
        let key = key_with_hash(h, 7);
        let id = key_with_hash(h, 99); // an event id valid for that key
        for &p in &ps {
            let by_key = uuid_to_partition_hash(key) % p;
            let by_id = uuid_to_partition_hash(id) % p;
            let rec = EventRecord {
                offset: 0,
                event_id: id,
                partition_key: key,
                partition_id: by_key,
                transaction_id: Uuid::nil(),
                partition_sequence: 0,
                stream_version: 0,
                timestamp: 0,
                confirmation_count: 0,
                stream_id: StreamId::new("s").unwrap(),
                event_name: String::new(),
                metadata: vec![],
                payload: vec![],
                size: 0,
            };
            let by_rec = rec.primary_partition_id(p);
            if by_key != h % p || by_id != by_key || by_rec != by_key {
                ctx.violation(
                    "C23/routing-partition",
                    &format!("hash {h}, {p} partitions: key routes to {by_key}, event id to {by_id}, record to {by_rec}, expected {}", h % p),
                    json!({"hash": h, "partitions": p}),
                );
            }
            for b in [1u16, 2, 3, 4, 7, 16, p] {
                if b == 0 || b > p {
                    continue;
                }
                let db_rule = by_key % b;
                if partition_id_to_bucket(by_key, b) != db_rule {
                    ctx.violation(
                        "C23/routing-bucket",
                        &format!("partition {by_key} with {b} buckets: partition_id_to_bucket = {}, Database uses {db_rule}", partition_id_to_bucket(by_key, b)),
                        json!({"hash": h, "partitions": p, "buckets": b}),
                    );
                }
            }
        }
        evals.fetch_add(ps.len() as u64 * 8, Ordering::Relaxed);
    });
    nontrivial.fetch_add(65536, Ordering::Relaxed);

    ctx.finish(
        json!({
            "evaluations": evals.load(Ordering::Relaxed),
            "distinct_nontrivial": nontrivial.load(Ordering::Relaxed),
            "rule": "all 65 536 partition hashes x N generated ids (time/random bits as drawn, stored in the replay file on failure); flag functions on every value of every byte over four fills plus walking one/zero over all 128 bits; routing on all hashes x 9 partition counts x 7 bucket counts",
            "samples": samples.take(),
            "exhaustive": true,
            "generated_ids_per_hash": per,
            "flag_patterns": patterns.len(),
        }),
        vec!["extract_event_id_bucket is not used for routing anywhere in the workspace and is not judged".into()],
    );
}

// ------------------------------------------------------------------------------------------

fn boundary_values() -> Vec<u64> {
    let mut v = vec![0u64, 1, 2, 3, (1 << 31) - 1, 1 << 31, (1 << 32) - 1, 1 << 32, (1 << 63) - 1, 1 << 63, u64::MAX - 1, u64::MAX];
    let mut x = 0x1234_5678_9ABC_DEF0u64;
    for _ in 0..8 {
        x ^= x << 13;
        x ^= x >> 7;
        x ^= x << 17;
        v.push(x);
    }
    v
}

fn true_gap(e: ExpectedVersion, c: CurrentVersion) -> Result<VersionGap, &'static str> {
    use CurrentVersion as C;
    use ExpectedVersion as E;
    Ok(match (e, c) {
        (E::Any, _) => VersionGap::None,
        (E::Exists, C::Empty) => VersionGap::Incompatible,
        (E::Exists, C::Current(_)) => VersionGap::None,
        (E::Empty, C::Empty) => VersionGap::None,
        (E::Empty, C::Current(n)) => VersionGap::Ahead(n.checked_add(1).ok_or("distance 2^64 is not representable")?),
        (E::Exact(x), C::Empty) => VersionGap::Behind(x.checked_add(1).ok_or("distance 2^64 is not representable")?),
        (E::Exact(x), C::Current(n)) => {
            if x == n {
                VersionGap::None
            } else if x > n {
                VersionGap::Behind(x - n)
            } else {
                VersionGap::Ahead(n - x)
            }
        }
    })
}

/// Writes a segment 0 that holds one event of stream "big" with the given stream version.
fn prepare_db_with_version(version: u64) -> std::path::PathBuf {
    let dir = fresh_dir("c25");
    let bsid = BucketSegmentId::new(0, 0);
    SegmentKind::ensure_segment_dir(&dir, bsid).unwrap();
    // meta.json is created by the first open
    let mut w = BucketSegmentWriter::create(SegmentKind::Events.get_path(&dir, bsid), 0, MIN_SEG, false).expect("segment create");
    let pk = crate::harness::partition_key(0);
    let ev = RawEvent {
        header: RecordHeader::new_event(5, crate::harness::tx_id(1, true)).unwrap(),
        event_id: crate::harness::event_id(0, 1).into_bytes(),
        partition_key: pk.into_bytes(),
        partition_id: crate::harness::partition_of(0),
        partition_sequence: 0,
        stream_version: version,
        stream_id: StreamId::new("big").unwrap(),
        event_name: ShortString("E".into()),
        metadata: LongBytes(vec![]),
        payload: LongBytes(b"x".to_vec()),
    };
    w.append_event(0, &ev).expect("append_event");
    w.sync().expect("sync");
    dir
}

pub fn c25(args: Args) {
    let mut ctx = Ctx::new("C25", args.tier, "exploration");
    let evals = AtomicU64::new(0);
    let mut nontrivial = 0u64;
    let samples = Samples::new(8);
    let vals = boundary_values();
    let mut expecteds = vec![ExpectedVersion::Any, ExpectedVersion::Exists, ExpectedVersion::Empty];
    expecteds.extend(vals.iter().map(|&v| ExpectedVersion::Exact(v)));
    let mut currents = vec![CurrentVersion::Empty];
    currents.extend(vals.iter().map(|&v| CurrentVersion::Current(v)));

    // algebra: all pairs
    for &e in &expecteds {
        for &c in &currents {
            evals.fetch_add(2, Ordering::Relaxed);
            nontrivial += 1;
            let case = json!({"expected": e.to_string(), "current": c.to_string()});
            let got = catch(|| e.gap_from(c));
            let want = true_gap(e, c);
            match (&got, &want) {
                (Err(p), _) => ctx.violation("C25/gap_from/panic", &format!("{e}.gap_from({c}) panicked: {p}"), case.clone()),
                (Ok(g), Ok(w)) => {
                    if g != w {
                        ctx.violation("C25/gap_from/wrong-distance", &format!("{e}.gap_from({c}) = {g:?}, the signed distance is {w:?}"), case.clone());
                    }
                }
                (Ok(g), Err(why)) => {
                    // the true distance (2^64) does not fit the result type; anything but a panic is a value that
                    // cannot be the distance
                    ctx.violation("C25/gap_from/distance-2^64-unrepresentable", &format!("{e}.gap_from({c}) = {g:?}: {why}"), case.clone());
                }
            }
            if let (Ok(sat), Ok(w)) = (catch(|| e.is_satisfied_by(c)), &want) {
                if sat != (*w == VersionGap::None) {
                    ctx.violation("C25/is_satisfied_by", &format!("{e}.is_satisfied_by({c}) = {sat} but the gap is {w:?}"), case.clone());
                }
            }
        }
    }
    samples.push(json!({"expected": "18446744073709551615", "current": "empty"}));
    // Display / FromStr
    for &e in &expecteds {
        evals.fetch_add(1, Ordering::Relaxed);
        let s = e.to_string();
        match s.parse::<ExpectedVersion>() {
            Ok(back) if back == e => {}
            other => ctx.violation("C25/display-parse", &format!("{e:?} displays as {s:?} which parses as {other:?}"), json!({"expected": s})),
        }
    }
    for &c in &currents {
        evals.fetch_add(1, Ordering::Relaxed);
        let s = c.to_string();
        match s.parse::<CurrentVersion>() {
            Ok(back) if back == c => {}
            other => ctx.violation("C25/display-parse", &format!("{c:?} displays as {s:?} which parses as {other:?}"), json!({"current": s})),
        }
    }
    for s in ["any", "exists", "empty", "0", "1", "18446744073709551615"] {
        evals.fetch_add(1, Ordering::Relaxed);
        match s.parse::<ExpectedVersion>() {
            Ok(v) if v.to_string() == s => {}
            other => ctx.violation("C25/parse-display", &format!("{s:?} parses as {other:?} which does not display as the same string"), json!({"string": s})),
        }
    }
    for s in [" 1", "+1", "007", "1 ", "EMPTY", "Any", "18446744073709551616", "-1", "", "0x10", "1e3"] {
        evals.fetch_add(1, Ordering::Relaxed);
        // "+1" is accepted by u64::from_str; it does not round-trip, which is what is judged
        if let Ok(v) = s.parse::<ExpectedVersion>() {
            if v.to_string() != s {
                ctx.violation("C25/parse-noncanonical-accepted", &format!("{s:?} is accepted as {v:?} but displays as {:?}", v.to_string()), json!({"string": s}));
            }
        }
    }
    for &n in &vals {
        evals.fetch_add(1, Ordering::Relaxed);
        match catch(|| ExpectedVersion::from_next_version(n).into_next_version()) {
            Ok(Some(m)) if m == n => {}
            other => ctx.violation("C25/next-version-roundtrip", &format!("from_next_version({n}).into_next_version() = {other:?}"), json!({"n": n})),
        }
    }
    match catch(|| ExpectedVersion::Exact(u64::MAX).into_next_version()) {
        Ok(None) => {}
        other => ctx.violation("C25/next-version-roundtrip", &format!("Exact(u64::MAX).into_next_version() = {other:?}, expected None"), json!({"n": "max"})),
    }

    // store agreement: the database accepts an append iff is_satisfied_by(current)
    let store_currents: Vec<(CurrentVersion, Option<u64>)> = vec![
        (CurrentVersion::Empty, None),
        (CurrentVersion::Current(0), None),
        (CurrentVersion::Current(2), None),
        (CurrentVersion::Current(1 << 32), Some(1 << 32)),
        (CurrentVersion::Current(1 << 63), Some(1 << 63)),
        (CurrentVersion::Current(u64::MAX - 1), Some(u64::MAX - 1)),
    ];
    let store_expected: Vec<ExpectedVersion> = {
        let mut v = vec![ExpectedVersion::Any, ExpectedVersion::Exists, ExpectedVersion::Empty];
        for x in [0u64, 1, 2, 3, (1 << 32) - 1, 1 << 32, (1 << 32) + 1, 1 << 63, u64::MAX - 2, u64::MAX - 1, u64::MAX] {
            v.push(ExpectedVersion::Exact(x));
        }
        v
    };
    let work: Vec<(CurrentVersion, Option<u64>, ExpectedVersion, bool)> = store_currents
        .iter()
        .flat_map(|(c, prep)| store_expected.iter().flat_map(move |e| [false, true].into_iter().map(move |on_partition| (*c, *prep, *e, on_partition))))
        .collect();
    par_for_each(&work, |i, &(cur, prep, exp, on_partition)| {
        evals.fetch_add(1, Ordering::Relaxed);
        let case = json!({"store": true, "current": cur.to_string(), "expected": exp.to_string(), "on": if on_partition { "partition-sequence" } else { "stream-version" }});
        // the partition-sequence side only has small currents (a sequence near u64::MAX cannot be continued at all)
        if on_partition && prep.is_some() {
            return;
        }
        let cfg = DbCfg::simple(MIN_SEG, false, SyncMode::EveryWrite);
        let (dir, stream, owns) = match prep {
            Some(v) => (prepare_db_with_version(v), "big", true),
            None => (fresh_dir("c25"), "st", true),
        };
        let res = catch(|| -> Result<bool, String> {
            let db = builder(&cfg).open(&dir).map_err(|e| format!("open: {e}"))?;
            let rt = new_rt();
            let pk = crate::harness::partition_key(0);
            let part = crate::harness::partition_of(0);
            let mut counter = 100u64;
            let mut mk = |exp_stream: ExpectedVersion, exp_seq: ExpectedVersion| {
                counter += 1;
                let ev = NewEvent {
                    event_id: crate::harness::event_id(0, counter),
                    stream_id: StreamId::new(stream).unwrap(),
                    stream_version: exp_stream,
                    event_name: "E".into(),
                    timestamp: 7,
                    metadata: vec![],
                    payload: b"p".to_vec(),
                };
                Transaction::new(pk, part, smallvec![ev]).unwrap().expected_partition_sequence(exp_seq)
            };
            if prep.is_none() {
                if let CurrentVersion::Current(n) = cur {
                    for _ in 0..=n {
                        let tx = mk(ExpectedVersion::Any, ExpectedVersion::Any);
                        rt.block_on(db.append_events(tx)).map_err(|e| format!("setup append: {e}"))?;
                    }
                }
            }
            let tx = if on_partition { mk(ExpectedVersion::Any, exp) } else { mk(exp, ExpectedVersion::Any) };
            let r = rt.block_on(async { tokio::time::timeout(std::time::Duration::from_secs(8), db.append_events(tx)).await });
            let accepted = match r {
                Ok(Ok(_)) => true,
                Ok(Err(_)) => false,
                Err(_) => return Err("append did not return".into()),
            };
            let _ = rt.block_on(async { tokio::time::timeout(std::time::Duration::from_secs(8), db.shutdown()).await });
            Ok(accepted)
        });
        if owns {
            let _ = std::fs::remove_dir_all(&dir);
        }
        let want = true_gap(exp, cur).map(|g| g == VersionGap::None).unwrap_or(false);
        match res {
            Ok(Ok(acc)) => {
                if acc != want {
                    ctx.violation(
                        "C25/store-disagrees",
                        &format!("database {} an append expecting {exp} on a {} at {cur}, is_satisfied_by says {want}", if acc { "accepted" } else { "rejected" }, if on_partition { "partition" } else { "stream" }),
                        case,
                    );
                }
            }
            Ok(Err(e)) => ctx.violation("C25/store-error", &format!("{e} (expected {exp}, current {cur})"), case),
            Err(p) => ctx.violation("C25/store-panic", &format!("panic: {p} (expected {exp}, current {cur})"), case),
        }
        if i % 37 == 0 {
            samples.push(json!({"store": true, "current": cur.to_string(), "expected": exp.to_string()}));
        }
    });
    nontrivial += work.len() as u64;
    let _ = H::new; // (harness type used by other modules)

    ctx.finish(
        json!({
            "evaluations": evals.load(Ordering::Relaxed),
            "distinct_nontrivial": nontrivial,
            "rule": "all (expected, current) pairs over {Any, Exists, Empty, Exact(v)} x {Empty, Current(v)} with v from 12 u64 boundary values + 8 spread values; string round trips on all of them; store agreement = one real append per (current, expected, stream|partition) on real databases (currents 2^32, 2^63, 2^64-2 prepared by writing a segment with BucketSegmentWriter)",
            "samples": samples.take(),
            "exhaustive": true,
            "boundary_values": vals.iter().map(|v| v.to_string()).collect::<Vec<_>>(),
            "store_cases": work.len(),
        }),
        vec!["built with overflow checks on (the repo's own test profile)".into()],
    );
}
