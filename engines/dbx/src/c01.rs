//! C01 — acknowledged appends are durable and immediately readable.
//!
//! All histories up to a depth over an alphabet of valid / conflicting / half-failing / oversized
//! appends and reopen, on every configuration (compression, segment size, sync mode).  After every
//! step: every acknowledged event is returned identically by event lookup, transaction lookup,
//! stream scan and partition scan; right after every acknowledgement the segment file that holds
//! the transaction has been fsynced at least up to the end of the transaction (hook H1).

use std::time::Duration;

use serde::{Deserialize, Serialize};
use serde_json::json;
use sierradb::bucket::segment::{BucketSegmentReader, Record};
use sierradb::bucket::{BucketSegmentId, SegmentKind};
use vcommon::workers::WorkerOut;
use vcommon::{Args, Tier};

use crate::harness::*;
use crate::{Plan, drive};

#[derive(Serialize, Deserialize, Clone, Debug)]
pub struct Case {
    pub cfg: DbCfg,
    pub ops: Vec<Op>,
}

fn ev(stream: u8, exp: ExpS, size: Size, bad: Bad) -> EvS {
    EvS { stream, exp, size, bad }
}

pub fn alphabet(full: bool) -> Vec<Op> {
    let any = ExpS::Any;
    let mut v = vec![
        Op::Append(TxS::single(0, 0, Size::Tiny)),
        Op::Append(TxS { pk: 0, events: vec![ev(0, any, Size::Tiny, Bad::No), ev(1, any, Size::Tiny, Bad::Timestamp)], exp_seq: any, conf: 0 }),
        Op::Append(TxS::single(0, 0, Size::Block)),
        Op::Reopen,
        Op::Append(TxS::multi(0, &[0, 1], Size::Tiny)),
        Op::Append(TxS::single(1, 2, Size::Tiny)),
        Op::Append(TxS { pk: 0, events: vec![ev(0, ExpS::Cur(1), Size::Tiny, Bad::No)], exp_seq: any, conf: 0 }),
        Op::Append(TxS { pk: 0, events: vec![ev(0, any, Size::Block, Bad::No), ev(1, any, Size::Tiny, Bad::Timestamp)], exp_seq: any, conf: 0 }),
        Op::Append(TxS::single(0, 1, Size::Oversize)),
    ];
    if full {
        v.extend([
            Op::Append(TxS::multi(0, &[0, 1, 0], Size::Tiny)),
            Op::Append(TxS::single(0, 0, Size::Big)),
            Op::Append(TxS::single(0, 0, Size::Small)),
            Op::Append(TxS { pk: 0, events: vec![ev(0, any, Size::Tiny, Bad::No), ev(0, any, Size::Tiny, Bad::LongName)], exp_seq: any, conf: 0 }),
            Op::Append(TxS { pk: 0, events: vec![ev(0, any, Size::Tiny, Bad::No)], exp_seq: any, conf: 13 }),
            Op::Append(TxS { pk: 0, events: vec![ev(0, ExpS::Empty, Size::Tiny, Bad::No)], exp_seq: any, conf: 0 }),
            Op::Append(TxS { pk: 0, events: vec![ev(3, ExpS::Exists, Size::Tiny, Bad::No)], exp_seq: any, conf: 0 }),
            // stream 0 belongs to partition key 0: key mismatch once it exists
            Op::Append(TxS { pk: 1, events: vec![ev(0, any, Size::Tiny, Bad::No)], exp_seq: any, conf: 0 }),
            Op::Append(TxS { pk: 0, events: vec![ev(0, any, Size::Tiny, Bad::No)], exp_seq: ExpS::Cur(1), conf: 0 }),
            Op::Append(TxS::multi(0, &[0, 1], Size::Block)),
        ]);
    }
    v
}

fn sequences(alpha: &[Op], depth: usize) -> Vec<Vec<Op>> {
    sequences_behind(alpha, depth, false)
}

/// `behind_prefix`: the sequences continue a non-empty history, so a leading reopen is meaningful.
fn sequences_behind(alpha: &[Op], depth: usize, behind_prefix: bool) -> Vec<Vec<Op>> {
    let mut out: Vec<Vec<Op>> = Vec::new();
    let mut level: Vec<Vec<Op>> = vec![vec![]];
    for _ in 0..depth {
        let mut next = Vec::new();
        for h in &level {
            for a in alpha {
                // a leading or doubled reopen adds nothing
                if matches!(a, Op::Reopen) && (matches!(h.last(), Some(Op::Reopen)) || (h.is_empty() && !behind_prefix)) {
                    continue;
                }
                let mut n = h.clone();
                n.push(a.clone());
                next.push(n);
            }
        }
        out.extend(next.iter().cloned());
        level = next;
    }
    out
}

pub fn cases(tier: Tier) -> Vec<Case> {
    let mut v = Vec::new();
    let deferred = SyncMode::Timer(12, 12);
    if tier.is_thorough() {
        let cfgs_all: Vec<DbCfg> = [MIN_SEG, 192 * 1024]
            .iter()
            .flat_map(|&seg| [true, false].into_iter().flat_map(move |c| [SyncMode::EveryWrite, deferred].into_iter().map(move |s| DbCfg::simple(seg, c, s))))
            .collect();
        for cfg in &cfgs_all {
            for ops in sequences(&alphabet(true), 3) {
                v.push(Case { cfg: cfg.clone(), ops });
            }
        }
        for cfg in [DbCfg::simple(MIN_SEG, true, SyncMode::EveryWrite), DbCfg::simple(MIN_SEG, false, deferred)] {
            for ops in sequences(&alphabet(false), 5) {
                if ops.len() >= 4 {
                    v.push(Case { cfg: cfg.clone(), ops });
                }
            }
        }
    } else {
        for cfg in [DbCfg::simple(MIN_SEG, true, SyncMode::EveryWrite), DbCfg::simple(MIN_SEG, false, deferred)] {
            for ops in sequences(&alphabet(false), 3) {
                v.push(Case { cfg: cfg.clone(), ops });
            }
        }
        for ops in sequences(&alphabet(false)[..5], 4) {
            if ops.len() == 4 {
                v.push(Case { cfg: DbCfg::simple(MIN_SEG, true, deferred), ops });
            }
        }
    }
    // from a non-initial state: the live segment is full, so the first append of the suffix rolls it over
    let full_segment = [Op::Append(TxS::single(0, 0, Size::Block)), Op::Append(TxS::single(0, 0, Size::Block))];
    let mut pre = Vec::new();
    let (cfgs, depth): (Vec<DbCfg>, usize) = if tier.is_thorough() {
        (vec![DbCfg::simple(MIN_SEG, true, SyncMode::EveryWrite), DbCfg::simple(MIN_SEG, false, deferred), DbCfg::simple(MIN_SEG, true, deferred)], 4)
    } else {
        (vec![DbCfg::simple(MIN_SEG, true, deferred), DbCfg::simple(MIN_SEG, false, SyncMode::EveryWrite)], 3)
    };
    for cfg in cfgs {
        for suffix in sequences_behind(&alphabet(false), depth, true) {
            if suffix.len() < 2 {
                continue;
            }
            // quick: depth 3 only behind the transaction that rolls the segment over and then fails half-way
            if !tier.is_thorough() && suffix.len() == 3 && suffix[0] != alphabet(false)[7] {
                continue;
            }
            let mut ops = full_segment.to_vec();
            ops.extend(suffix);
            pre.push(Case { cfg: cfg.clone(), ops });
        }
    }
    // two full segments behind the history (the middle segment was created by one rollover and sealed by the next)
    let two_rollovers: Vec<Op> = (0..4).map(|_| Op::Append(TxS::single(0, 0, Size::Block))).collect();
    let cfgs2: Vec<DbCfg> = if tier.is_thorough() {
        vec![DbCfg::simple(MIN_SEG, true, SyncMode::EveryWrite), DbCfg::simple(MIN_SEG, false, deferred)]
    } else {
        vec![DbCfg::simple(MIN_SEG, true, SyncMode::EveryWrite)]
    };
    for cfg in cfgs2 {
        for suffix in sequences_behind(&alphabet(false), if tier.is_thorough() { 3 } else { 2 }, true) {
            let mut ops = two_rollovers.clone();
            ops.extend(suffix);
            pre.push(Case { cfg: cfg.clone(), ops });
        }
    }
    pre.extend(v);
    pre
}

/// After an acknowledged append: the segment file that holds the transaction must have been
/// fsynced up to the end of the transaction's last record.
fn check_fsync(h: &H, offsets: &[u64], first_event_id: uuid::Uuid, n_events: usize) -> Option<Problem> {
    let bucket = 0u16;
    let seg_dir = h.dir.join("buckets").join(format!("{bucket:05}")).join("segments");
    let mut ids: Vec<u32> = std::fs::read_dir(&seg_dir).ok()?.filter_map(|e| e.ok()?.file_name().to_str()?.parse().ok()).collect();
    ids.sort();
    for sid in ids.into_iter().rev() {
        let path = SegmentKind::Events.get_path(&h.dir, BucketSegmentId::new(bucket, sid));
        let Ok(mut rd) = BucketSegmentReader::open(&path, None) else { continue };
        // walk the transaction's records from the first offset
        let mut off = offsets[0];
        let mut seen = 0usize;
        let mut matched = false;
        let mut end = 0u64;
        for _ in 0..(n_events + 1) {
            match rd.read_record(off, seglog::read::ReadHint::Random) {
                Ok(Some(Record::Event(e))) => {
                    if seen == 0 {
                        if e.event_id != first_event_id {
                            break;
                        }
                        matched = true;
                    }
                    seen += 1;
                    off = e.offset + e.size;
                    end = off;
                    if n_events == 1 {
                        break;
                    }
                }
                Ok(Some(Record::Commit(c))) => {
                    end = c.offset + sierradb::bucket::segment::COMMIT_SIZE as u64;
                    break;
                }
                _ => break,
            }
        }
        if matched {
            let synced = sierradb::verif::synced_len(&path).map(|x| x.0).unwrap_or(0);
            if synced < end {
                return Some(problem(
                    "acked-before-fsync",
                    format!("append acknowledged while segment {sid} was fsynced only up to {synced}; the transaction ends at {end}"),
                ));
            }
            return None;
        }
    }
    // not found on disk at all: the read checks report it
    None
}

pub fn run_case(case: &Case, out: &mut WorkerOut) {
    let report = |out: &mut WorkerOut, p: &Problem, step: usize, case: &Case| {
        let ops: Vec<Op> = case.ops[..=step].to_vec();
        let cause = diagnose(&ops);
        let key = format!("C01/{}/{}/{}", p.kind, cause, if matches!(case.cfg.sync, SyncMode::EveryWrite) { "sync-every-write" } else { "sync-deferred" });
        out.outcome(key.clone());
        out.violation(&key, &format!("{} [{} ops {}]", p.detail, case.cfg.label(), serde_json::to_string(&ops).unwrap()), serde_json::to_value(Case { cfg: case.cfg.clone(), ops }).unwrap());
    };
    let mut h = match H::new(case.cfg.clone(), "c01") {
        Ok(h) => h,
        Err(e) => vcommon::machinery_fail(&format!("cannot open fresh database: {e}")),
    };
    for (step, op) in case.ops.iter().enumerate() {
        out.transitions += 1;
        match op {
            Op::Reopen => {
                if let Err(e) = h.reopen() {
                    report(out, &problem("reopen-failed", e), step, case);
                    return;
                }
            }
            Op::Batch(ts) => {
                if let Err(p) = h.append_batch(ts) {
                    report(out, &p, step, case);
                    return;
                }
            }
            Op::Append(t) => {
                let before = h.model.total_events();
                let first_id = event_id(t.pk, h.counter + 1);
                match h.append(t) {
                    Err(p) => {
                        report(out, &p, step, case);
                        return;
                    }
                    Ok(Some(res)) => {
                        if let Some(p) = check_fsync(&h, &res.offsets, first_id, t.events.len()) {
                            report(out, &p, step, case);
                            return;
                        }
                        debug_assert!(h.model.total_events() > before);
                    }
                    Ok(None) => {}
                }
            }
        }
        let probs = h.check_reads(&mut out.evals);
        out.state(h.model.signature() ^ (step as u64).wrapping_mul(0x9E37));
        if let Some(p) = probs.first() {
            report(out, p, step, case);
            return;
        }
    }
    out.outcome("ok");
    if out.cases_done % 200 == 0 {
        out.sample(serde_json::to_value(case).unwrap());
    }
}

/// Which earlier operation class makes the history special (for the finding key).
pub fn diagnose(ops: &[Op]) -> &'static str {
    let is_fail_mid = |o: &Op| matches!(o, Op::Append(t) if t.events.len() > 1 && t.events[1..].iter().any(|e| e.bad != Bad::No));
    let large = |o: &Op| matches!(o, Op::Append(t) if t.events.iter().any(|e| matches!(e.size, Size::Block | Size::Big)));
    let n = ops.len();
    if ops[..n - 1].iter().any(is_fail_mid) {
        "after-half-written-append"
    } else if is_fail_mid(&ops[n - 1]) {
        "at-half-written-append"
    } else if ops.iter().filter(|o| large(o)).count() >= 2 {
        "after-rollover"
    } else if matches!(ops[n - 1], Op::Reopen) {
        "after-reopen"
    } else {
        "plain"
    }
}

pub fn run(args: Args) {
    let tier = args.tier;
    let plan = Plan { property: "C01", level: "model_checking", cases: cases(tier), cap: if tier.is_thorough() { Duration::from_secs(1500) } else { Duration::from_secs(50) } };
    drive(args, plan, run_case, |m, total| {
        (
            json!({
                "states": m.states.len(),
                "transitions": m.transitions,
                "traces_validated_against_impl": m.cases_done,
                "samples": m.samples,
                "exhaustive": !m.capped,
                "histories_enumerated": total,
                "histories_executed": m.cases_done,
                "read_checks": m.evals,
                "distinct_observed_outcomes": m.outcomes.len(),
                "alphabet": alphabet(tier.is_thorough()).iter().map(|o| serde_json::to_value(o).unwrap()).collect::<Vec<_>>(),
                "rule": "all operation histories up to the stated depth over the alphabet, each on a fresh real database; states = distinct (model state, step) pairs; every history is executed on the implementation",
            }),
            vec![
                "fsync is observed through hook H1 (record of the length covered by the last successful sync_data per segment file)".into(),
                "deferred sync mode uses a 12 ms timer; the read-back right after the acknowledgement is what is checked, not timing".into(),
            ],
        )
    })
}
