//! C06 — a crash during segment rollover neither loses data nor blocks reopening.
//!
//! For every history with at least one rollover: the run finishes, the background index flush
//! completes, the directory is copied.  Crash images: for each sealed segment, each of its three
//! index files independently in {empty (state at rollover time), a mid prefix, complete} (27
//! combinations), plus a full prefix sweep of each file (every 16 bytes) with the other two
//! complete.  Every image is reopened with the real `DatabaseBuilder::open` and judged through
//! every read API, then continued with an append.

use std::path::{Path, PathBuf};
use std::time::Duration;

use serde::{Deserialize, Serialize};
use serde_json::json;
use vcommon::workers::WorkerOut;
use vcommon::{Args, Tier};

use crate::harness::*;
use crate::{Plan, drive};

const FILES: [&str; 3] = ["index.eidx", "partition.pidx", "stream.sidx"];

#[derive(Serialize, Deserialize, Clone, Debug)]
pub struct Case {
    pub history: Vec<TxS>,
    /// which sealed segment (by position) is damaged
    pub sealed: usize,
    /// Some = replay exactly this image
    #[serde(default)]
    pub only: Option<[FileState; 3]>,
}

#[derive(Serialize, Deserialize, Clone, Copy, Debug, PartialEq, Eq)]
pub enum FileState {
    Empty,
    Prefix(usize),
    Mid,
    Complete,
    Missing,
}

fn shapes() -> Vec<(TxS, usize)> {
    // (shape, approximate stored bytes)
    vec![
        (TxS::single(0, 0, Size::Block), 50 * 1024 + 120),
        (TxS::single(0, 0, Size::Big), 70 * 1024 + 120),
        (TxS::multi(0, &[0, 1], Size::Block), 100 * 1024 + 280),
        (TxS::multi(0, &[0, 1], Size::Tiny), 300),
        (TxS::single(1, 2, Size::Block), 50 * 1024 + 120),
    ]
}

fn rollovers(hist: &[usize]) -> usize {
    let sh = shapes();
    let mut off = 48usize;
    let mut n = 0;
    for &i in hist {
        let sz = sh[i].1;
        if off + sz > MIN_SEG {
            n += 1;
            off = 48;
        }
        off += sz;
    }
    n
}

pub fn cases(tier: Tier) -> Vec<Case> {
    let depth = if tier.is_thorough() { 5 } else { 3 };
    let ns = shapes().len();
    let mut v = Vec::new();
    let mut level: Vec<Vec<usize>> = vec![vec![]];
    for _ in 0..depth {
        let mut next = Vec::new();
        for h in &level {
            for i in 0..ns {
                let mut n = h.clone();
                n.push(i);
                next.push(n);
            }
        }
        for h in &next {
            let r = rollovers(h);
            // only histories whose LAST step causes the (r-th) rollover or the one after: others repeat layouts
            if r >= 1 && rollovers(&h[..h.len() - 1]) < r {
                for sealed in 0..r {
                    v.push(Case { history: h.iter().map(|&i| shapes()[i].0.clone()).collect(), sealed, only: None });
                }
            }
        }
        level = next;
    }
    if !tier.is_thorough() {
        v.truncate(40);
    }
    v
}

fn copy_dir(from: &Path, to: &Path) {
    let _ = std::fs::remove_dir_all(to);
    std::fs::create_dir_all(to).unwrap();
    for e in std::fs::read_dir(from).unwrap() {
        let e = e.unwrap();
        let p = e.path();
        let dst = to.join(e.file_name());
        if p.is_dir() {
            copy_dir(&p, &dst);
        } else {
            std::fs::copy(&p, &dst).unwrap();
        }
    }
}

fn sealed_dirs(dir: &Path) -> Vec<PathBuf> {
    let segs = dir.join("buckets").join("00000").join("segments");
    let mut ids: Vec<u32> = std::fs::read_dir(&segs).unwrap().filter_map(|e| e.ok()?.file_name().to_str()?.parse().ok()).collect();
    ids.sort();
    ids.pop();
    ids.into_iter().map(|i| segs.join(format!("{i:010}"))).collect()
}

fn wait_flush(dir: &Path) -> bool {
    let deadline = std::time::Instant::now() + Duration::from_secs(8);
    loop {
        let pending = sealed_dirs(dir).iter().any(|d| FILES.iter().any(|f| std::fs::metadata(d.join(f)).map(|m| m.len() == 0).unwrap_or(true)));
        if !pending {
            std::thread::sleep(Duration::from_millis(5));
            return true;
        }
        if std::time::Instant::now() > deadline {
            return false;
        }
        std::thread::sleep(Duration::from_millis(2));
    }
}

/// Finding key: an open failure is keyed by the set of damaged files; a database that opens but cannot find
/// acknowledged events is keyed by the index kind whose truncated file was accepted as complete.
fn key_for(kind: &str, st: &[FileState; 3]) -> String {
    let k = kind.trim_start_matches("after-continuation/").trim_start_matches("continuation/");
    if k.starts_with("reopen") {
        return format!("C06/reopen-failed/damaged={}", damaged(st));
    }
    let which = if k.starts_with("read_event") || k.starts_with("read_transaction") {
        "eidx"
    } else if k.starts_with("stream") {
        "sidx"
    } else if k.starts_with("partition") {
        "pidx"
    } else {
        "other"
    };
    let any_prefix = st.iter().any(|s| matches!(s, FileState::Prefix(_) | FileState::Mid));
    format!("C06/{}/{which}", if any_prefix { "truncated-index-accepted" } else { kind })
}

fn damaged(st: &[FileState; 3]) -> String {
    let names = ["eidx", "pidx", "sidx"];
    let v: Vec<&str> = st.iter().enumerate().filter(|(_, s)| !matches!(s, FileState::Complete)).map(|(i, _)| names[i]).collect();
    if v.is_empty() { "none".into() } else { v.join("+") }
}

fn class_of(st: &[FileState; 3]) -> String {
    let one = |s: &FileState| match s {
        FileState::Empty => "empty",
        FileState::Prefix(_) | FileState::Mid => "prefix",
        FileState::Complete => "complete",
        FileState::Missing => "missing",
    };
    format!("eidx={}/pidx={}/sidx={}", one(&st[0]), one(&st[1]), one(&st[2]))
}

pub fn run_case(case: &Case, out: &mut WorkerOut) {
    let mut cfg = DbCfg::simple(MIN_SEG, true, SyncMode::EveryWrite);
    cfg.reader_threads = 1;
    let mut h = match H::new(cfg.clone(), "c06") {
        Ok(h) => h,
        Err(e) => vcommon::machinery_fail(&format!("open: {e}")),
    };
    for t in &case.history {
        if let Err(p) = h.append(t) {
            out.outcome(format!("history-problem/{}", p.kind));
            return;
        }
    }
    if !wait_flush(&h.dir) {
        out.outcome("index-flush-did-not-finish");
        return;
    }
    h.shutdown();
    let sealed = sealed_dirs(&h.dir);
    if case.sealed >= sealed.len() {
        out.outcome("fewer-sealed-segments-than-enumerated");
        return;
    }
    let target_rel = sealed[case.sealed].strip_prefix(&h.dir).unwrap().to_path_buf();
    let full: Vec<Vec<u8>> = FILES.iter().map(|f| std::fs::read(sealed[case.sealed].join(f)).unwrap()).collect();
    let model = h.model.clone();
    let counter = h.counter;

    // enumerate images
    let mut images: Vec<[FileState; 3]> = Vec::new();
    if let Some(o) = case.only {
        images.push(o);
    } else {
        let tri = [FileState::Empty, FileState::Mid, FileState::Complete];
        for a in tri {
            for b in tri {
                for c in tri {
                    images.push([a, b, c]);
                }
            }
        }
        for (fi, bytes) in full.iter().enumerate() {
            let mut cuts: Vec<usize> = (0..bytes.len()).step_by(16).collect();
            cuts.extend([1, 4, 8, 12, bytes.len().saturating_sub(1)]);
            cuts.sort();
            cuts.dedup();
            for k in cuts {
                if k < bytes.len() {
                    let mut st = [FileState::Complete; 3];
                    st[fi] = FileState::Prefix(k);
                    images.push(st);
                }
            }
        }
    }
    let scratch = fresh_dir("c06img");
    for st in images {
        out.transitions += 1;
        copy_dir(&h.dir, &scratch);
        for (fi, f) in FILES.iter().enumerate() {
            let p = scratch.join(&target_rel).join(f);
            match st[fi] {
                FileState::Complete => {}
                FileState::Empty => std::fs::write(&p, b"").unwrap(),
                FileState::Mid => std::fs::write(&p, &full[fi][..full[fi].len() / 2]).unwrap(),
                FileState::Prefix(k) => std::fs::write(&p, &full[fi][..k.min(full[fi].len())]).unwrap(),
                FileState::Missing => {
                    let _ = std::fs::remove_file(&p);
                }
            }
        }
        let cls = class_of(&st);
        out.state(vcommon::fnv(format!("{:?}{}{:?}", case.history, case.sealed, st).as_bytes()));
        let verdict: Option<Problem> = match H::open_existing(cfg.clone(), &scratch, model.clone(), counter + 50) {
            Err(e) => Some(problem("reopen-failed", e)),
            Ok(mut hh) => {
                let probs = hh.check_reads(&mut out.evals);
                match probs.into_iter().next() {
                    Some(p) => Some(p),
                    None => match hh.append(&TxS::multi(0, &[0, 1], Size::Tiny)) {
                        Err(p) => Some(problem(format!("continuation/{}", p.kind), p.detail)),
                        Ok(None) => Some(problem("continuation/rejected", "a plain append after reopening was rejected")),
                        Ok(Some(_)) => hh.check_reads(&mut out.evals).into_iter().next().map(|p| problem(format!("after-continuation/{}", p.kind), p.detail)),
                    },
                }
            }
        };
        match verdict {
            None => out.outcome(format!("{cls}/ok")),
            Some(p) => {
                out.outcome(format!("{cls}/{}", p.kind));
                let mut c = case.clone();
                c.only = Some(st);
                out.violation(
                    &key_for(&p.kind, &st),
                    &format!("{} [sealed segment #{} index files {:?}; history {}]", p.detail, case.sealed, st, serde_json::to_string(&case.history).unwrap()),
                    serde_json::to_value(&c).unwrap(),
                );
            }
        }
    }
    let _ = std::fs::remove_dir_all(&scratch);
    if out.cases_done % 10 == 0 {
        out.sample(json!({"history": case.history, "sealed": case.sealed, "index_file_sizes": full.iter().map(|b| b.len()).collect::<Vec<_>>()}));
    }
}

pub fn run(args: Args) {
    let tier = args.tier;
    let plan = Plan { property: "C06", level: "fault_enumeration", cases: cases(tier), cap: if tier.is_thorough() { Duration::from_secs(1500) } else { Duration::from_secs(50) } };
    drive(args, plan, run_case, |m, total| {
        (
            json!({
                "evaluations": m.transitions,
                "distinct_nontrivial": m.states.len(),
                "rule": "one evaluation = one crash image (history, sealed segment, state of its three index files) reopened by the real DatabaseBuilder::open and judged through every read API plus a continuation append; images: {empty, half, complete}^3 and every 16-byte prefix (and absence) of each file with the other two complete",
                "samples": m.samples,
                "exhaustive": !m.capped,
                "work_units_enumerated": total,
                "work_units_executed": m.cases_done,
                "read_checks": m.evals,
                "distinct_observed_outcomes": m.outcomes.len(),
                "outcomes": m.outcomes,
            }),
            vec![
                "the index files are written by a background pool without fsync after the rollover; any prefix (including nothing) of each file may be on disk, independently per file".into(),
                "the sealed segment's data file itself was synced by the rollover and is intact".into(),
            ],
        )
    })
}
