//! Shared harness of the dbx engine: deterministic ids, operation specs, a real `Database` next to
//! the reference model, and the read-back comparison used by several properties.

use std::path::{Path, PathBuf};
use std::time::Duration;

use serde::{Deserialize, Serialize};
use sierradb::StreamId;
use sierradb::bucket::segment::{CommittedEvents, EventRecord};
use sierradb::database::{Database, DatabaseBuilder, ExpectedVersion, NewEvent, Transaction};
use sierradb::error::WriteError;
use sierradb::id::{set_uuid_flag, uuid_to_partition_hash};
use sierradb::writer_thread_pool::AppendResult;
use sierradb::IterDirection;
use smallvec::SmallVec;
use uuid::Uuid;
use vcommon::model::{Exp, MEvent, MNewEvent, MTx, Model};
use vcommon::XorShift;

pub const MIN_SEG: usize = 128 * 1024;

#[derive(Serialize, Deserialize, Clone, Copy, Debug, PartialEq, Eq, Hash)]
pub enum SyncMode {
    /// sync after every write (min_sync_bytes = 0)
    EveryWrite,
    /// sync exactly every k events, never by timer or size
    EveryEvents(usize),
    /// timer only: (interval ms, idle ms); thresholds unreachable
    Timer(u64, u64),
    /// size threshold only
    Bytes(usize),
    /// the builder's defaults (5 ms / 50 ms / 50 events / 4096 bytes)
    Defaults,
    /// (interval ms, idle ms, max batch events, min sync bytes)
    Custom(u64, u64, usize, usize),
}

#[derive(Serialize, Deserialize, Clone, Debug, PartialEq, Eq, Hash)]
pub struct DbCfg {
    pub seg: usize,
    pub compression: bool,
    pub sync: SyncMode,
    pub buckets: u16,
    pub writer_threads: u16,
    #[serde(default = "two")]
    pub reader_threads: u16,
}

fn two() -> u16 {
    2
}

static OPENS: std::sync::atomic::AtomicU64 = std::sync::atomic::AtomicU64::new(0);

/// Number of databases opened by this process so far (each open leaks the reader pool's threads:
/// the pool and its block caches reference each other).
pub fn opens() -> u64 {
    OPENS.load(std::sync::atomic::Ordering::Relaxed)
}

impl DbCfg {
    pub fn simple(seg: usize, compression: bool, sync: SyncMode) -> Self {
        DbCfg { seg, compression, sync, buckets: 1, writer_threads: 1, reader_threads: 2 }
    }
    pub fn label(&self) -> String {
        format!("seg={}/comp={}/sync={:?}/b={}/w={}", self.seg, self.compression, self.sync, self.buckets, self.writer_threads)
    }
}

pub fn builder(cfg: &DbCfg) -> DatabaseBuilder {
    OPENS.fetch_add(1, std::sync::atomic::Ordering::Relaxed);
    let mut b = DatabaseBuilder::new();
    b.segment_size_bytes(cfg.seg)
        .total_buckets(cfg.buckets)
        .bucket_ids_from_range(0..cfg.buckets)
        .reader_threads(cfg.reader_threads)
        .writer_threads(cfg.writer_threads)
        .cache_capacity_bytes(8 * 1024 * 1024)
        .compression(cfg.compression);
    match cfg.sync {
        SyncMode::EveryWrite => {
            b.sync_interval(Duration::MAX).sync_idle_interval(Duration::MAX).max_batch_size(usize::MAX).min_sync_bytes(0);
        }
        SyncMode::EveryEvents(k) => {
            b.sync_interval(Duration::MAX).sync_idle_interval(Duration::MAX).max_batch_size(k).min_sync_bytes(usize::MAX);
        }
        SyncMode::Timer(i, idle) => {
            b.sync_interval(Duration::from_millis(i)).sync_idle_interval(Duration::from_millis(idle)).max_batch_size(usize::MAX).min_sync_bytes(usize::MAX);
        }
        SyncMode::Bytes(n) => {
            b.sync_interval(Duration::MAX).sync_idle_interval(Duration::MAX).max_batch_size(usize::MAX).min_sync_bytes(n);
        }
        SyncMode::Defaults => {}
        SyncMode::Custom(i, idle, batch, bytes) => {
            b.sync_interval(Duration::from_millis(i)).sync_idle_interval(Duration::from_millis(idle)).max_batch_size(batch).min_sync_bytes(bytes);
        }
    }
    b
}

// ------------------------------------------------------------------------------------------
// deterministic identifiers

/// Partition key number `n`: a UUID whose embedded 16-bit partition hash is `hash_of(n)`.
pub fn hash_of(pk: u8) -> u16 {
    // distinct hashes; with 2 buckets: pk 0,2 -> bucket 1 (odd partition), pk 1 -> bucket 0
    [5u16, 6, 7, 8][pk as usize % 4]
}

pub fn partition_key(pk: u8) -> Uuid {
    let v: u128 = (0xAAAA_0000_0000u128 << 80) | (0x7u128 << 64) | (0x2u128 << 62) | ((hash_of(pk) as u128) << 46) | (0x1234 + pk as u128);
    Uuid::from_u128(v)
}

pub fn partition_of(pk: u8) -> u16 {
    hash_of(pk) % 1024
}

pub fn event_id(pk: u8, counter: u64) -> Uuid {
    let v: u128 = (((0x0100_0000_0000u64 + counter) as u128) << 80) | (0x7u128 << 64) | (0x2u128 << 62) | ((hash_of(pk) as u128) << 46) | (counter as u128 & ((1 << 46) - 1));
    let id = Uuid::from_u128(v);
    debug_assert_eq!(uuid_to_partition_hash(id), hash_of(pk));
    id
}

pub fn tx_id(counter: u64, single: bool) -> Uuid {
    set_uuid_flag(Uuid::from_u128((0x7E57_0000_0000_4000_8000_0000_0000_0000u128) | (counter as u128 + 1)), single)
}

// ------------------------------------------------------------------------------------------
// operation specs (serialisable: they are what a replay file holds)

#[derive(Serialize, Deserialize, Clone, Copy, Debug, PartialEq, Eq, Hash)]
pub enum Size {
    Tiny,     // 10 bytes
    Small,    // 200 bytes, compressible (crosses the 128-byte compression threshold)
    Kb5,      // 5 KiB incompressible
    Block,    // ~50 KiB incompressible: two fit a 128 KiB segment, the third forces a rollover
    Big,      // ~70 KiB incompressible: crosses the 64 KiB cache block, two do not fit a 128 KiB segment
    Oversize, // larger than the 128 KiB minimum segment
}

pub fn payload(size: Size, seed: u64) -> Vec<u8> {
    match size {
        Size::Tiny => format!("tiny-{:05}", seed % 100_000).into_bytes(),
        Size::Small => (0..200).map(|i| b'a' + ((i / 20) as u8 + seed as u8) % 26).collect(),
        Size::Kb5 => XorShift::new(seed ^ 0x5555).bytes(5 * 1024),
        Size::Block => XorShift::new(seed ^ 0xB10C).bytes(50 * 1024),
        Size::Big => XorShift::new(seed ^ 0xB16).bytes(70 * 1024),
        Size::Oversize => XorShift::new(seed ^ 0x0E5).bytes(140 * 1024),
    }
}

#[derive(Serialize, Deserialize, Clone, Copy, Debug, PartialEq, Eq, Hash)]
pub enum ExpS {
    Any,
    Exists,
    Empty,
    /// Exact(current + delta); with no current value: Exact(max(delta, 0))
    Cur(i8),
}

impl ExpS {
    pub fn resolve(self, current: Option<u64>) -> Exp {
        match self {
            ExpS::Any => Exp::Any,
            ExpS::Exists => Exp::Exists,
            ExpS::Empty => Exp::Empty,
            ExpS::Cur(d) => match current {
                Some(c) => Exp::Exact((c as i128 + d as i128).max(0) as u64),
                None => Exp::Exact(d.max(0) as u64),
            },
        }
    }
}

#[derive(Serialize, Deserialize, Clone, Copy, Debug, PartialEq, Eq, Hash)]
pub enum Bad {
    No,
    /// timestamp >= 2^63: the record header cannot be built; fails *after* earlier events were written
    Timestamp,
    /// event name longer than 255 bytes: encoding fails after earlier events were written
    LongName,
}

#[derive(Serialize, Deserialize, Clone, Debug, PartialEq, Eq, Hash)]
pub struct EvS {
    pub stream: u8,
    pub exp: ExpS,
    pub size: Size,
    pub bad: Bad,
}

#[derive(Serialize, Deserialize, Clone, Debug, PartialEq, Eq, Hash)]
pub struct TxS {
    pub pk: u8,
    pub events: Vec<EvS>,
    pub exp_seq: ExpS,
    /// confirmation count (13 = above the maximum: rejected by the record encoder)
    pub conf: u8,
}

impl TxS {
    pub fn single(pk: u8, stream: u8, size: Size) -> TxS {
        TxS { pk, events: vec![EvS { stream, exp: ExpS::Any, size, bad: Bad::No }], exp_seq: ExpS::Any, conf: 0 }
    }
    pub fn multi(pk: u8, streams: &[u8], size: Size) -> TxS {
        TxS { pk, events: streams.iter().map(|&s| EvS { stream: s, exp: ExpS::Any, size, bad: Bad::No }).collect(), exp_seq: ExpS::Any, conf: 0 }
    }
    /// implementation-level failure expected (not part of the model)
    pub fn impl_failure_expected(&self, seg: usize) -> bool {
        self.conf > 12 || self.events.iter().any(|e| e.bad != Bad::No) || self.estimated_size() + 48 > seg
    }
    pub fn estimated_size(&self) -> usize {
        self.events.iter().map(|e| 120 + payload(e.size, 0).len()).sum::<usize>() + 40
    }
}

#[derive(Serialize, Deserialize, Clone, Debug, PartialEq, Eq, Hash)]
pub enum Op {
    Append(TxS),
    Reopen,
    /// several appends issued back to back without awaiting the previous one (arrival order =
    /// list order): later ones are validated while earlier ones are still unsynced
    Batch(Vec<TxS>),
}

pub fn stream_name(prefix: &str, s: u8) -> String {
    format!("{prefix}s{s}")
}

// ------------------------------------------------------------------------------------------
// real database + model

pub struct H {
    pub rt: tokio::runtime::Runtime,
    pub dir: PathBuf,
    owns_dir: bool,
    pub cfg: DbCfg,
    pub db: Option<Database>,
    pub model: Model,
    pub counter: u64,
    pub prefix: String,
}

#[derive(Debug, Clone)]
pub struct Problem {
    pub kind: String,
    pub detail: String,
}

pub fn problem(kind: impl Into<String>, detail: impl Into<String>) -> Problem {
    Problem { kind: kind.into(), detail: detail.into() }
}

pub enum AppendOutcome {
    Accepted(AppendResult),
    Rejected(WriteError),
    Hung,
}

pub fn fresh_dir(tag: &str) -> PathBuf {
    static N: std::sync::atomic::AtomicU64 = std::sync::atomic::AtomicU64::new(0);
    let n = N.fetch_add(1, std::sync::atomic::Ordering::Relaxed);
    let d = vcommon::workers::scratch_base().join(format!("verif-dbx-{}-{}-{}", std::process::id(), tag, n));
    let _ = std::fs::remove_dir_all(&d);
    std::fs::create_dir_all(&d).unwrap_or_else(|e| vcommon::machinery_fail(&format!("scratch dir: {e}")));
    d
}

pub fn new_rt() -> tokio::runtime::Runtime {
    tokio::runtime::Builder::new_current_thread().enable_time().build().expect("runtime")
}

pub const APPEND_DEADLINE: Duration = Duration::from_secs(40); // generous: on a machine starved by other jobs appends were seen to take 5 s; C20 is the check about bounded time

impl H {
    pub fn new(cfg: DbCfg, tag: &str) -> Result<H, String> {
        let dir = fresh_dir(tag);
        let db = builder(&cfg).open(&dir).map_err(|e| format!("open: {e}"))?;
        Ok(H { rt: new_rt(), dir, owns_dir: true, cfg, db: Some(db), model: Model::new(), counter: 0, prefix: String::new() })
    }

    /// Opens an existing directory (crash images); the model is supplied by the caller.
    pub fn open_existing(cfg: DbCfg, dir: &Path, model: Model, counter: u64) -> Result<H, String> {
        let db = vcommon::catch(|| builder(&cfg).open(dir)).map_err(|p| format!("open panicked: {p}"))?.map_err(|e| format!("open failed: {e}"))?;
        Ok(H { rt: new_rt(), dir: dir.to_path_buf(), owns_dir: false, cfg, db: Some(db), model, counter, prefix: String::new() })
    }

    pub fn db(&self) -> &Database {
        self.db.as_ref().expect("database open")
    }

    pub fn shutdown(&mut self) {
        if let Some(db) = self.db.take() {
            let _ = self.rt.block_on(async { tokio::time::timeout(Duration::from_secs(10), db.shutdown()).await });
            drop(db);
        }
    }

    /// A rollover hands the sealed segment's three index files to a background thread.  A reopen inside one process
    /// must not overlap with that thread (the old instance would still be writing the file the new one reads; what a
    /// *partial* index file does to the next open is C06's subject, with the file states enumerated there), so wait
    /// until every sealed segment's index files are non-empty and have stopped growing.
    pub fn wait_sealed_indexes_settled(&self) {
        let deadline = std::time::Instant::now() + Duration::from_secs(40);
        let sizes = |dir: &Path| -> Option<Vec<u64>> {
            let mut v = Vec::new();
            for b in std::fs::read_dir(dir.join("buckets")).ok()?.flatten() {
                let segs = b.path().join("segments");
                let mut ids: Vec<String> = std::fs::read_dir(&segs).ok()?.flatten().filter_map(|e| e.file_name().to_str().map(String::from)).collect();
                ids.sort();
                ids.pop(); // the live segment's index files stay empty
                for id in ids {
                    for f in ["index.eidx", "partition.pidx", "stream.sidx"] {
                        let len = std::fs::metadata(segs.join(&id).join(f)).map(|m| m.len()).unwrap_or(0);
                        if len == 0 {
                            return None;
                        }
                        v.push(len);
                    }
                }
            }
            Some(v)
        };
        let mut last: Option<Vec<u64>> = None;
        let mut stable_since = std::time::Instant::now();
        while std::time::Instant::now() < deadline {
            let now = sizes(&self.dir);
            if now.is_some() && now == last {
                if stable_since.elapsed() >= Duration::from_millis(40) {
                    return;
                }
            } else {
                stable_since = std::time::Instant::now();
                last = now;
            }
            std::thread::sleep(Duration::from_millis(4));
        }
    }

    pub fn reopen(&mut self) -> Result<(), String> {
        self.wait_sealed_indexes_settled();
        self.shutdown();
        let cfg = self.cfg.clone();
        let dir = self.dir.clone();
        let db = vcommon::catch(|| builder(&cfg).open(&dir)).map_err(|p| format!("reopen panicked: {p}"))?.map_err(|e| format!("reopen failed: {e}"))?;
        self.db = Some(db);
        Ok(())
    }

    /// Builds the model transaction and the real transaction for a spec (consumes id counters).
    pub fn build(&mut self, t: &TxS) -> (MTx, Result<Transaction, String>) {
        let pkey = partition_key(t.pk);
        let part = partition_of(t.pk);
        let mut mevents = Vec::new();
        let mut revents: SmallVec<[NewEvent; 4]> = SmallVec::new();
        // expectations are resolved against the model including earlier events of this transaction
        let mut cur: std::collections::BTreeMap<String, Option<u64>> = Default::default();
        for e in &t.events {
            self.counter += 1;
            let c = self.counter;
            let stream = stream_name(&self.prefix, e.stream);
            let current = *cur.entry(stream.clone()).or_insert_with(|| self.model.stream_version(&stream));
            let exp = e.exp.resolve(current);
            cur.insert(stream.clone(), Some(current.map(|v| v + 1).unwrap_or(0)));
            let id = event_id(t.pk, c);
            let name = if e.bad == Bad::LongName { "N".repeat(300) } else { format!("Evt{}", c % 7) };
            let timestamp = if e.bad == Bad::Timestamp { (1u64 << 63) + c } else { 1_700_000_000_000_000_000 + c };
            let metadata = format!("m{c}").into_bytes();
            let pl = payload(e.size, c);
            mevents.push(MNewEvent { id: id.as_u128(), stream: stream.clone(), exp, name: name.clone(), timestamp, metadata: metadata.clone(), payload: pl.clone() });
            revents.push(NewEvent {
                event_id: id,
                stream_id: StreamId::new(stream).expect("stream id"),
                stream_version: to_expected(exp),
                event_name: name,
                timestamp,
                metadata,
                payload: pl,
            });
        }
        self.counter += 1;
        let txid = tx_id(self.counter, t.events.len() == 1);
        let exp_seq = t.exp_seq.resolve(self.model.partition_sequence(part));
        let mtx = MTx { partition_key: pkey.as_u128(), partition_id: part, tx_id: txid.as_u128(), events: mevents, exp_seq, confirmation_count: t.conf };
        let rtx = Transaction::new(pkey, part, revents)
            .map(|tx| tx.with_transaction_id(txid).expected_partition_sequence(to_expected(exp_seq)).with_confirmation_count(t.conf))
            .map_err(|e| format!("Transaction::new: {e}"));
        (mtx, rtx)
    }

    pub fn raw_append(&self, tx: Transaction) -> AppendOutcome {
        let db = self.db().clone();
        match self.rt.block_on(async move { tokio::time::timeout(APPEND_DEADLINE, db.append_events(tx)).await }) {
            Ok(Ok(r)) => AppendOutcome::Accepted(r),
            Ok(Err(e)) => AppendOutcome::Rejected(e),
            Err(_) => AppendOutcome::Hung,
        }
    }

    /// Executes one append against the real database and the model; returns problems (accept/reject
    /// disagreement, wrong sequences/versions in the result).  `Ok(Some(result))` = accepted by both.
    pub fn append(&mut self, t: &TxS) -> Result<Option<AppendResult>, Problem> {
        let (mtx, rtx) = self.build(t);
        let rtx = rtx.map_err(|e| problem("harness", e))?;
        let impl_fail = t.impl_failure_expected(self.cfg.seg);
        let model_verdict = self.model.check(&mtx);
        match self.raw_append(rtx) {
            AppendOutcome::Hung => Err(problem("append-never-completed", format!("append did not return within {APPEND_DEADLINE:?}"))),
            AppendOutcome::Accepted(res) => {
                if impl_fail {
                    return Err(problem("accepted-unstorable", "an append that cannot be stored (bad timestamp / name / confirmation count / oversize) was acknowledged"));
                }
                match self.model.apply(&mtx) {
                    Err(r) => Err(problem("accepted-should-reject", format!("database accepted an append the model rejects ({r:?})"))),
                    Ok(acc) => {
                        if res.first_partition_sequence != acc.first_seq || res.last_partition_sequence != acc.last_seq {
                            return Err(problem(
                                "wrong-sequence-in-result",
                                format!("append result sequences {}..={} but model {}..={}", res.first_partition_sequence, res.last_partition_sequence, acc.first_seq, acc.last_seq),
                            ));
                        }
                        for (s, v) in &acc.stream_versions {
                            let got = res.stream_versions.iter().find(|(k, _)| k.as_ref() as &str == s.as_str()).map(|(_, v)| *v);
                            if got != Some(*v) {
                                return Err(problem("wrong-version-in-result", format!("append result version for {s}: {got:?}, model {v}")));
                            }
                        }
                        if res.stream_versions.len() != acc.stream_versions.len() || res.offsets.len() != mtx.events.len() {
                            return Err(problem("wrong-version-in-result", "append result lists a different set of streams/offsets than the transaction"));
                        }
                        Ok(Some(res))
                    }
                }
            }
            AppendOutcome::Rejected(err) => {
                if impl_fail {
                    return Ok(None);
                }
                match model_verdict {
                    Err(_) => Ok(None),
                    Ok(()) => Err(problem("rejected-should-accept", format!("database rejected an append the model accepts: {err}"))),
                }
            }
        }
    }

    /// Issues all transactions without awaiting in between (first polls happen in list order, each
    /// first poll runs the future up to the reply wait, i.e. past the channel send), then awaits all.
    pub fn append_batch(&mut self, ts: &[TxS]) -> Result<Vec<bool>, Problem> {
        let mut built = Vec::new();
        for t in ts {
            // the model is advanced at build time so that later expectations resolve against it
            let (mtx, rtx) = self.build(t);
            let rtx = rtx.map_err(|e| problem("harness", e))?;
            let impl_fail = t.impl_failure_expected(self.cfg.seg);
            let verdict = if impl_fail { Err(None) } else { self.model.apply(&mtx).map_err(Some) };
            built.push((rtx, verdict, mtx));
        }
        let db = self.db().clone();
        let futs: Vec<_> = built.iter().map(|(rtx, _, _)| db.append_events(rtx.clone())).collect();
        let results = match self.rt.block_on(async move { tokio::time::timeout(APPEND_DEADLINE, futures::future::join_all(futs)).await }) {
            Ok(r) => r,
            Err(_) => return Err(problem("append-never-completed", format!("a batch of appends did not return within {APPEND_DEADLINE:?}"))),
        };
        let mut out = Vec::new();
        for (i, (res, (_, verdict, mtx))) in results.into_iter().zip(built.iter()).enumerate() {
            match (res, verdict) {
                (Ok(r), Ok(acc)) => {
                    if r.first_partition_sequence != acc.first_seq || r.last_partition_sequence != acc.last_seq {
                        return Err(problem("wrong-sequence-in-result", format!("batch element {i}: result sequences {}..={} but model {}..={}", r.first_partition_sequence, r.last_partition_sequence, acc.first_seq, acc.last_seq)));
                    }
                    for (s, v) in &acc.stream_versions {
                        let got = r.stream_versions.iter().find(|(k, _)| k.as_ref() as &str == s.as_str()).map(|(_, v)| *v);
                        if got != Some(*v) {
                            return Err(problem("wrong-version-in-result", format!("batch element {i}: version for {s}: {got:?}, model {v}")));
                        }
                    }
                    let _ = mtx;
                    out.push(true);
                }
                (Err(_), Err(_)) => out.push(false),
                (Ok(_), Err(why)) => return Err(problem("accepted-should-reject", format!("batch element {i} accepted although the model rejects it ({why:?})"))),
                (Err(e), Ok(_)) => return Err(problem("rejected-should-accept", format!("batch element {i} rejected although the model accepts it: {e}"))),
            }
        }
        Ok(out)
    }

    // ------------------------------------------------------------------ reads

    pub fn scan_stream(&self, stream: &str, partition: u16, from: u64, dir: IterDirection, batch: usize) -> Result<Vec<CommittedEvents>, String> {
        let db = self.db().clone();
        let sid = StreamId::new(stream.to_string()).map_err(|e| e.to_string())?;
        self.rt.block_on(async move {
            tokio::time::timeout(Duration::from_secs(40), async {
                let mut it = db.read_stream(partition, sid, from, dir).await.map_err(|e| format!("read_stream: {e}"))?;
                let mut out = Vec::new();
                let mut guard = 0;
                if batch == 0 {
                    while let Some(c) = it.next().await.map_err(|e| format!("next: {e}"))? {
                        out.push(c);
                        guard += 1;
                        if guard > 10_000 {
                            return Err("scan does not terminate".to_string());
                        }
                    }
                    return Ok(out);
                }
                while let Some(b) = it.next_batch(batch).await.map_err(|e| format!("next_batch: {e}"))? {
                    out.extend(b);
                    guard += 1;
                    if guard > 10_000 {
                        return Err("scan does not terminate".to_string());
                    }
                }
                Ok(out)
            })
            .await
            .map_err(|_| "scan timed out".to_string())?
        })
    }

    pub fn scan_partition(&self, partition: u16, from: u64, dir: IterDirection, batch: usize) -> Result<Vec<CommittedEvents>, String> {
        let db = self.db().clone();
        self.rt.block_on(async move {
            tokio::time::timeout(Duration::from_secs(40), async {
                let mut it = db.read_partition(partition, from, dir).await.map_err(|e| format!("read_partition: {e}"))?;
                let mut out = Vec::new();
                let mut guard = 0;
                if batch == 0 {
                    while let Some(c) = it.next().await.map_err(|e| format!("next: {e}"))? {
                        out.push(c);
                        guard += 1;
                        if guard > 10_000 {
                            return Err("scan does not terminate".to_string());
                        }
                    }
                    return Ok(out);
                }
                while let Some(b) = it.next_batch(batch).await.map_err(|e| format!("next_batch: {e}"))? {
                    out.extend(b);
                    guard += 1;
                    if guard > 10_000 {
                        return Err("scan does not terminate".to_string());
                    }
                }
                Ok(out)
            })
            .await
            .map_err(|_| "scan timed out".to_string())?
        })
    }

    /// Compares every read API with the model (all acknowledged events).
    pub fn check_reads(&self, evals: &mut u64) -> Vec<Problem> {
        let mut out = Vec::new();
        let db = self.db().clone();
        // event lookups and transaction lookups
        for (ti, (part, range)) in self.model.txs.iter().enumerate() {
            let evs = &self.model.partitions[part][range.clone()];
            for (k, me) in evs.iter().enumerate() {
                *evals += 1;
                let id = Uuid::from_u128(me.id);
                let d = db.clone();
                let p = *part;
                match self.rt.block_on(async move { tokio::time::timeout(Duration::from_secs(40), d.read_event(p, id)).await }) {
                    Err(_) => out.push(problem("read_event-hang", format!("read_event({id}) timed out"))),
                    Ok(Err(e)) => out.push(problem("read_event-error", format!("read_event of acknowledged event seq {} failed: {e}", me.seq))),
                    Ok(Ok(None)) => out.push(problem("read_event-missing", format!("acknowledged event seq {} (tx #{ti}) not found by id", me.seq))),
                    Ok(Ok(Some(rec))) => {
                        if let Some(d) = diff_event(&rec, me) {
                            out.push(problem("read_event-wrong", format!("read_event of seq {} returned a different event: {d}", me.seq)));
                        }
                    }
                }
                if k == 0 {
                    *evals += 1;
                    let d = db.clone();
                    match self.rt.block_on(async move { tokio::time::timeout(Duration::from_secs(40), d.read_transaction(p, id)).await }) {
                        Err(_) => out.push(problem("read_transaction-hang", "read_transaction timed out")),
                        Ok(Err(e)) => out.push(problem("read_transaction-error", format!("read_transaction of tx #{ti} failed: {e}"))),
                        Ok(Ok(None)) => out.push(problem("read_transaction-missing", format!("acknowledged tx #{ti} not found"))),
                        Ok(Ok(Some(ce))) => {
                            let recs: Vec<EventRecord> = ce.into_iter().collect();
                            if let Some(d) = diff_list(&recs, &evs.iter().collect::<Vec<_>>()) {
                                out.push(problem("read_transaction-wrong", format!("read_transaction of tx #{ti}: {d}")));
                            }
                        }
                    }
                }
            }
            if out.len() > 8 {
                return out;
            }
        }
        // scans
        for (stream, ms) in &self.model.streams {
            *evals += 1;
            let part = ms.events.first().map(|(p, _)| *p).unwrap_or(0);
            match self.scan_stream(stream, part, 0, IterDirection::Forward, 3) {
                Err(e) => out.push(problem("stream-scan-error", format!("forward scan of {stream}: {e}"))),
                Ok(groups) => {
                    let recs: Vec<EventRecord> = groups.into_iter().flat_map(|g| g.into_iter()).collect();
                    if let Some(d) = diff_list(&recs, &self.model.stream_events(stream)) {
                        out.push(problem("stream-scan-wrong", format!("forward scan of {stream}: {d}")));
                    }
                }
            }
            *evals += 1;
            let d = db.clone();
            let sid = StreamId::new(stream.clone()).unwrap();
            match self.rt.block_on(async move { d.get_stream_version(part, &sid).await }) {
                Err(e) => out.push(problem("stream-version-error", format!("get_stream_version({stream}): {e}"))),
                Ok(v) => {
                    if v.map(|x| x.version) != self.model.stream_version(stream) {
                        out.push(problem("stream-version-wrong", format!("get_stream_version({stream}) = {:?}, model {:?}", v.map(|x| x.version), self.model.stream_version(stream))));
                    }
                }
            }
        }
        for (part, evs) in &self.model.partitions {
            *evals += 1;
            match self.scan_partition(*part, 0, IterDirection::Forward, 3) {
                Err(e) => out.push(problem("partition-scan-error", format!("forward scan of partition {part}: {e}"))),
                Ok(groups) => {
                    let recs: Vec<EventRecord> = groups.into_iter().flat_map(|g| g.into_iter()).collect();
                    if let Some(d) = diff_list(&recs, &evs.iter().collect::<Vec<_>>()) {
                        out.push(problem("partition-scan-wrong", format!("forward scan of partition {part}: {d}")));
                    }
                }
            }
            *evals += 1;
            let d = db.clone();
            let p = *part;
            match self.rt.block_on(async move { d.get_partition_sequence(p).await }) {
                Err(e) => out.push(problem("partition-sequence-error", format!("get_partition_sequence({part}): {e}"))),
                Ok(v) => {
                    if v.map(|x| x.sequence) != self.model.partition_sequence(*part) {
                        out.push(problem("partition-sequence-wrong", format!("get_partition_sequence({part}) = {:?}, model {:?}", v.map(|x| x.sequence), self.model.partition_sequence(*part))));
                    }
                }
            }
        }
        out
    }
}

impl Drop for H {
    fn drop(&mut self) {
        self.shutdown();
        if self.owns_dir {
            let _ = std::fs::remove_dir_all(&self.dir);
        }
    }
}

pub fn to_expected(e: Exp) -> ExpectedVersion {
    match e {
        Exp::Any => ExpectedVersion::Any,
        Exp::Exists => ExpectedVersion::Exists,
        Exp::Empty => ExpectedVersion::Empty,
        Exp::Exact(v) => ExpectedVersion::Exact(v),
    }
}

pub fn diff_event(rec: &EventRecord, m: &MEvent) -> Option<String> {
    let mut d = Vec::new();
    if rec.event_id.as_u128() != m.id {
        d.push(format!("event id {} != {}", rec.event_id, Uuid::from_u128(m.id)));
    }
    if rec.partition_key.as_u128() != m.partition_key {
        d.push("partition key".to_string());
    }
    if rec.partition_id != m.partition_id {
        d.push(format!("partition id {} != {}", rec.partition_id, m.partition_id));
    }
    if rec.transaction_id.as_u128() != m.tx_id {
        d.push("transaction id".to_string());
    }
    if rec.partition_sequence != m.seq {
        d.push(format!("sequence {} != {}", rec.partition_sequence, m.seq));
    }
    if rec.stream_version != m.version {
        d.push(format!("version {} != {}", rec.stream_version, m.version));
    }
    if rec.stream_id.as_ref() as &str != m.stream.as_str() {
        d.push(format!("stream {} != {}", rec.stream_id, m.stream));
    }
    if rec.event_name != m.name {
        d.push("event name".to_string());
    }
    if rec.timestamp != m.timestamp {
        d.push(format!("timestamp {} != {}", rec.timestamp, m.timestamp));
    }
    if rec.metadata != m.metadata {
        d.push("metadata".to_string());
    }
    if rec.payload != m.payload {
        d.push(format!("payload ({} vs {} bytes)", rec.payload.len(), m.payload.len()));
    }
    if rec.confirmation_count != m.confirmation_count {
        d.push(format!("confirmation count {} != {}", rec.confirmation_count, m.confirmation_count));
    }
    if d.is_empty() { None } else { Some(d.join(", ")) }
}

pub fn diff_list(recs: &[EventRecord], model: &[&MEvent]) -> Option<String> {
    if recs.len() != model.len() {
        return Some(format!(
            "returned {} events {:?}, model has {} {:?}",
            recs.len(),
            recs.iter().map(|r| (r.partition_sequence, r.stream_version)).collect::<Vec<_>>(),
            model.len(),
            model.iter().map(|m| (m.seq, m.version)).collect::<Vec<_>>()
        ));
    }
    for (i, (r, m)) in recs.iter().zip(model.iter()).enumerate() {
        if let Some(d) = diff_event(r, m) {
            return Some(format!("position {i}: {d}"));
        }
    }
    None
}
