//! C19 — appends that fit an empty segment never fail for lack of space.
//!
//! For every segment size, compression setting and candidate transaction (payload content class x
//! plain size, single / pair), the stored size of the candidate is measured on an empty segment.
//! Then the live segment is brought, byte by byte, to every fill level in a window around "the
//! estimate just fits" and "the stored bytes just fit" (plus empty and half full), and the candidate
//! is appended (with retries).  If its stored size fits an empty segment it must be accepted.

use std::collections::BTreeSet;
use std::time::Duration;

use serde::{Deserialize, Serialize};
use serde_json::json;
use sierradb::StreamId;
use sierradb::database::{ExpectedVersion, NewEvent, Transaction};
use smallvec::SmallVec;
use vcommon::workers::WorkerOut;
use vcommon::{Args, Tier, XorShift};

use crate::harness::*;
use crate::{Plan, drive};

const EVENT_FIXED: usize = 93; // seglog head 8 + confirmation 1 + fixed bincode fields of an event
const COMMIT: usize = 37;
const SEG_HEADER: usize = 48;

#[derive(Serialize, Deserialize, Clone, Copy, Debug, PartialEq, Eq, Hash)]
pub enum Class {
    Zeros,
    Text,
    Xorshift,
}

#[derive(Serialize, Deserialize, Clone, Debug, PartialEq, Eq, Hash)]
pub struct Cand {
    pub pair: bool,
    pub class: Class,
    pub plain: usize,
    /// number of events (0 = 2 if `pair` else 1)
    #[serde(default)]
    pub n_events: usize,
    /// event ids, timestamps and metadata are pseudo-random too (UUIDv4-style ids: the record's fixed fields do not
    /// compress either)
    #[serde(default)]
    pub random_header: bool,
}

impl Cand {
    fn n(&self) -> usize {
        if self.n_events > 0 { self.n_events } else if self.pair { 2 } else { 1 }
    }
    fn meta_len(&self) -> usize {
        if self.random_header { 12 } else { 0 }
    }
}

#[derive(Serialize, Deserialize, Clone, Debug)]
pub struct Case {
    pub seg: usize,
    pub compression: bool,
    pub cand: Cand,
    /// free bytes in the live segment when the candidate arrives
    pub free: usize,
    pub stored: usize,
    pub estimate: usize,
}

fn content(class: Class, n: usize, seed: u64) -> Vec<u8> {
    match class {
        Class::Zeros => vec![0u8; n],
        Class::Text => (0..n).map(|i| b"the quick brown fox jumps over the lazy dog "[(i + seed as usize) % 44]).collect(),
        Class::Xorshift => XorShift::new(seed ^ 0xC19).bytes(n),
    }
}

const STREAM: &str = "c19";
const NAME: &str = "E";

fn cand_tx(c: &Cand, counter: u64) -> Transaction {
    let n = c.n();
    let mut evs: SmallVec<[NewEvent; 4]> = SmallVec::new();
    let mut rng = XorShift::new(0xFEED ^ counter);
    for k in 0..n as u64 {
        let (id, timestamp, metadata) = if c.random_header {
            // counter in the low bits keeps ids distinct; everything else is noise
            let b = rng.bytes(16);
            let mut v = u128::from_le_bytes(b.try_into().unwrap());
            v = (v & !0xFFFFu128) | ((counter + k) as u128 & 0xFFFF);
            // the 16 bits every event id of this partition key must carry
            v = (v & !(0xFFFFu128 << 46)) | ((hash_of(0) as u128) << 46);
            (uuid::Uuid::from_u128(v), u64::from_le_bytes(rng.bytes(8).try_into().unwrap()) >> 2, rng.bytes(12))
        } else {
            (event_id(0, counter + k), 77, vec![])
        };
        evs.push(NewEvent {
            event_id: id,
            stream_id: StreamId::new(STREAM).unwrap(),
            stream_version: ExpectedVersion::Any,
            event_name: NAME.into(),
            timestamp,
            metadata,
            payload: content(c.class, c.plain, k),
        });
    }
    if c.random_header {
        // partition key and transaction id are noise as well (the key carries the partition's hash bits)
        let noise = |rng: &mut XorShift| u128::from_le_bytes(rng.bytes(16).try_into().unwrap());
        let pk = (noise(&mut rng) & !(0xFFFFu128 << 46)) | ((hash_of(0) as u128) << 46);
        let txid = sierradb::id::set_uuid_flag(uuid::Uuid::from_u128(noise(&mut rng)), n == 1);
        return Transaction::new(uuid::Uuid::from_u128(pk), partition_of(0), evs).unwrap().with_transaction_id(txid);
    }
    Transaction::new(partition_key(0), partition_of(0), evs).unwrap().with_transaction_id(tx_id(counter, n == 1))
}

/// The id of the candidate's first event (for the read-back).
fn cand_first_id(c: &Cand, counter: u64) -> uuid::Uuid {
    cand_tx(c, counter).events()[0].event_id
}

fn estimate(c: &Cand) -> usize {
    let per = EVENT_FIXED + STREAM.len() + NAME.len() + c.meta_len() + c.plain;
    if c.n() > 1 { c.n() * per + COMMIT } else { per }
}

/// Stored size of the candidate on an empty, very large segment.
const MEASURED_ENV: &str = "VERIF_C19_MEASURED";

/// Stored sizes are measured once, by the parent process, and handed to the workers through the environment: every
/// measurement opens a database whose preallocated segment stays alive in the scratch file system until the process
/// ends (the reader pool's threads keep the descriptors), and 16 workers each measuring every candidate exhausted the
/// machine's memory.
static MEASURED: std::sync::OnceLock<std::sync::Mutex<std::collections::HashMap<String, usize>>> = std::sync::OnceLock::new();

fn measured_cache() -> &'static std::sync::Mutex<std::collections::HashMap<String, usize>> {
    MEASURED.get_or_init(|| std::sync::Mutex::new(std::env::var(MEASURED_ENV).ok().and_then(|s| serde_json::from_str(&s).ok()).unwrap_or_default()))
}

fn measured(compression: bool, c: &Cand) -> Result<usize, String> {
    let cache = measured_cache();
    let key = format!("{compression}/{}", serde_json::to_string(c).unwrap());
    if let Some(v) = cache.lock().unwrap().get(&key) {
        return Ok(*v);
    }
    let v = measure(compression, c)?;
    cache.lock().unwrap().insert(key, v);
    Ok(v)
}

/// Called by the parent after it enumerated the cases (and thereby measured every candidate).
fn export_measurements() {
    if std::env::var(MEASURED_ENV).is_err() {
        let json = serde_json::to_string(&*measured_cache().lock().unwrap()).unwrap();
        // SAFETY: no other thread of this process is running yet
        unsafe { std::env::set_var(MEASURED_ENV, json) };
    }
}

fn measure(compression: bool, c: &Cand) -> Result<usize, String> {
    // a segment just large enough for the candidate (a large one costs scratch memory, see above)
    let seg = (estimate(c) + 64 * 1024).next_power_of_two().max(128 * 1024);
    let cfg = DbCfg::simple(seg, compression, SyncMode::EveryWrite);
    let h = H::new(cfg, "c19m")?;
    match h.raw_append(cand_tx(c, 1)) {
        AppendOutcome::Accepted(r) => {
            let db = h.db().clone();
            let first = cand_first_id(c, 1);
            let ce = h.rt.block_on(async move { db.read_transaction(partition_of(0), first).await }).map_err(|e| e.to_string())?.ok_or("measured transaction not readable")?;
            let evs: Vec<_> = ce.into_iter().collect();
            let last = evs.last().unwrap();
            let end = last.offset + last.size + if c.n() > 1 { COMMIT as u64 } else { 0 };
            let _ = r;
            Ok(end as usize - SEG_HEADER)
        }
        AppendOutcome::Rejected(e) => Err(format!("measurement append rejected: {e}")),
        AppendOutcome::Hung => Err("measurement append hung".into()),
    }
}

fn candidates(seg: usize, thorough: bool) -> Vec<Cand> {
    let mut v = Vec::new();
    let plains: Vec<usize> = if thorough { vec![100, 127, 128, 129, 4000, 60_000] } else { vec![100, 129, 4000] };
    for class in [Class::Xorshift, Class::Zeros, Class::Text] {
        for &p in &plains {
            v.push(Cand { pair: false, class, plain: p, n_events: 0, random_header: false });
            if thorough || p == 129 {
                v.push(Cand { pair: true, class, plain: p, n_events: 0, random_header: false });
            }
        }
        // incompressible fixed fields (random ids / timestamps / metadata), small events, several per transaction
        if class == Class::Xorshift {
            let shapes: Vec<(usize, usize)> = if thorough { vec![(1, 20), (1, 100), (1, 129), (2, 100), (10, 20), (10, 100), (10, 129), (40, 100), (1, 4000), (4, 4000)] } else { vec![(1, 100), (10, 100), (10, 129)] };
            for (n, p) in shapes {
                v.push(Cand { pair: n == 2, class, plain: p, n_events: n, random_header: true });
            }
        }
        // right around "just fits an empty segment" (by the estimate)
        let fixed = EVENT_FIXED + STREAM.len() + NAME.len();
        let deltas: Vec<i64> = if thorough { (-8..=24).collect() } else { vec![-8, -1, 0, 1, 13, 24] };
        for d in deltas {
            let plain = (seg as i64 - SEG_HEADER as i64 - fixed as i64 - d) as usize;
            v.push(Cand { pair: false, class, plain, n_events: 0, random_header: false });
        }
    }
    v
}

pub fn cases(tier: Tier) -> Vec<Case> {
    let thorough = tier.is_thorough();
    let segs: Vec<usize> = if thorough { vec![131_072, 131_073, 196_608, 1_048_576] } else { vec![131_072] };
    let mut v = Vec::new();
    for &seg in &segs {
        for compression in [true, false] {
            for cand in candidates(seg, thorough) {
                let est = estimate(&cand);
                let stored = match measured(compression, &cand) {
                    Ok(s) => s,
                    Err(e) => vcommon::machinery_fail(&format!("cannot measure stored size of {cand:?}: {e}")),
                };
                if std::env::var("VERIF_C19_DEBUG").is_ok() {
                    eprintln!("cand {cand:?} compression={compression} estimate={est} stored={stored}");
                }
                let mut frees: BTreeSet<usize> = BTreeSet::new();
                let w = if thorough { 16i64 } else { 6 };
                for d in -w..=w {
                    for base in [est as i64, stored as i64] {
                        let f = base + d;
                        if f > 0 && (f as usize) <= seg - SEG_HEADER {
                            frees.insert(f as usize);
                        }
                    }
                }
                // everything between the two when they are close (the interval in which the size estimate and the
                // stored size disagree about fitting)
                let (lo, hi) = (est.min(stored), est.max(stored));
                if hi - lo <= 400 {
                    for f in lo..=hi {
                        if f > 0 && f <= seg - SEG_HEADER {
                            frees.insert(f);
                        }
                    }
                }
                frees.insert(seg - SEG_HEADER); // empty segment
                frees.insert((seg - SEG_HEADER) / 2);
                for free in frees {
                    // the filler that positions the write offset must itself be a storable event
                    let fill = seg - SEG_HEADER - free;
                    if fill != 0 && fill < EVENT_FIXED + 8 {
                        continue;
                    }
                    v.push(Case { seg, compression, cand: cand.clone(), free, stored, estimate: est });
                }
            }
        }
    }
    v
}

pub fn run_case(case: &Case, out: &mut WorkerOut) {
    let fits = case.stored <= case.seg - SEG_HEADER;
    // 1. position the live segment with compression off (sizes are then exact)
    let fill = case.seg - SEG_HEADER - case.free;
    let mut h = match H::new(DbCfg::simple(case.seg, false, SyncMode::EveryWrite), "c19") {
        Ok(h) => h,
        Err(e) => vcommon::machinery_fail(&format!("open: {e}")),
    };
    if fill > 0 {
        let pl = fill - EVENT_FIXED - 4 - 1; // stream "fill", name "F"
        let ev = NewEvent {
            event_id: event_id(0, 900),
            stream_id: StreamId::new("fill").unwrap(),
            stream_version: ExpectedVersion::Any,
            event_name: "F".into(),
            timestamp: 1,
            metadata: vec![],
            payload: XorShift::new(9).bytes(pl),
        };
        let tx = Transaction::new(partition_key(0), partition_of(0), smallvec::smallvec![ev]).unwrap().with_transaction_id(tx_id(900, true));
        match h.raw_append(tx) {
            AppendOutcome::Accepted(r) => {
                let end = r.offsets[0] as usize + fill;
                if end != case.seg - case.free {
                    vcommon::machinery_fail(&format!("filler did not land where computed: {} vs {}", end, case.seg - case.free));
                }
            }
            _ => vcommon::machinery_fail("filler append failed"),
        }
    }
    // 2. reopen with the configuration under test
    h.cfg.compression = case.compression;
    if let Err(e) = h.reopen() {
        out.violation("C19/reopen-failed", &e, serde_json::to_value(case).unwrap());
        return;
    }
    // 3. the candidate, with retries
    let mut last_err = String::new();
    let mut accepted_at = None;
    for attempt in 0..3u64 {
        out.evals += 1;
        match h.raw_append(cand_tx(&case.cand, 10 + attempt * 100)) {
            AppendOutcome::Accepted(_) => {
                accepted_at = Some(attempt);
                break;
            }
            AppendOutcome::Rejected(e) => last_err = e.to_string(),
            AppendOutcome::Hung => last_err = "append did not return".into(),
        }
    }
    let region = if case.free == case.seg - SEG_HEADER {
        "empty-segment"
    } else if case.free >= case.estimate.max(case.stored) {
        "fits-both"
    } else if case.free >= case.estimate {
        "estimate-fits-stored-does-not"
    } else if case.free >= case.stored {
        "stored-fits-estimate-does-not"
    } else {
        "needs-rollover"
    };
    out.state(vcommon::fnv(format!("{}/{}/{:?}/{}", case.seg, case.compression, case.cand, region).as_bytes()));
    out.outcome(format!("{region}/{}", if accepted_at.is_some() { "accepted" } else { "rejected" }));
    if !fits {
        // stored size does not fit an empty segment: no verdict
        return;
    }
    match accepted_at {
        Some(attempt) => {
            // readable afterwards
            let db = h.db().clone();
            let first = cand_first_id(&case.cand, 10 + attempt * 100);
            match h.rt.block_on(async move { tokio::time::timeout(Duration::from_secs(40), db.read_transaction(partition_of(0), first)).await }) {
                Ok(Ok(Some(ce))) if ce.len() == case.cand.n() => {}
                other => {
                    out.violation(
                        &format!("C19/accepted-not-readable/{region}"),
                        &format!("candidate accepted but read_transaction returned {:?}", other.map(|r| r.map(|o| o.map(|c| c.len())))),
                        serde_json::to_value(case).unwrap(),
                    );
                }
            }
        }
        None => {
            let oversize_estimate = case.estimate + SEG_HEADER > case.seg;
            let key = if oversize_estimate {
                format!("C19/never-accepted/estimate-exceeds-segment/compression={}/class={:?}", case.compression, case.cand.class)
            } else {
                format!("C19/never-accepted/{region}/compression={}/class={:?}", case.compression, case.cand.class)
            };
            out.violation(
                &key,
                &format!(
                    "a transaction whose stored size ({} bytes) fits an empty {}-byte segment was rejected on 3 attempts with {} bytes free (estimate {}): {last_err}",
                    case.stored, case.seg, case.free, case.estimate
                ),
                serde_json::to_value(case).unwrap(),
            );
        }
    }
    if out.cases_done % 150 == 0 {
        out.sample(serde_json::to_value(case).unwrap());
    }
}

pub fn run(args: Args) {
    let tier = args.tier;
    // measuring stored sizes needs real databases; workers re-derive the same list
    let all = cases(tier);
    export_measurements();
    let plan = Plan { property: "C19", level: "model_checking", cases: all, cap: if tier.is_thorough() { Duration::from_secs(1500) } else { Duration::from_secs(50) } };
    drive(args, plan, run_case, |m, total| {
        (
            json!({
                "states": m.states.len(),
                "transitions": m.evals,
                "traces_validated_against_impl": m.cases_done,
                "samples": m.samples,
                "exhaustive": !m.capped,
                "cases_enumerated": total,
                "cases_executed": m.cases_done,
                "distinct_observed_outcomes": m.outcomes.len(),
                "outcomes": m.outcomes,
                "rule": "case = (segment size, compression, candidate, free bytes); free bytes enumerated byte by byte in a window around the estimate and around the measured stored size, plus empty and half full; states = distinct (segment size, compression, candidate, fit region)",
            }),
            vec!["the live segment is positioned with an incompressible filler written with compression off, so the write offset is exact".into()],
        )
    })
}
