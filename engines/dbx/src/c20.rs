//! C20 — every append completes within a bounded time.
//!
//! The wait protocol is: the writer replies with (write offset, watch receiver); the client waits
//! until the watch value covers that offset; the value is published by every sync (size / count
//! thresholds, the syncer thread's poll, rollover, shutdown).  A lost wake-up is therefore a logical
//! state — a waiter whose condition no future publication satisfies — reachable or not depending on
//! the history and on WHEN the client future is polled, which the harness owns.
//!
//! Enumerated: every history up to a depth over {tiny, 5 KiB, 50 KiB (rollovers)} x every polling
//! schedule (each append future is either awaited at once, or polled exactly once and resumed
//! after any later step or at the end) x sync configurations.

use std::future::Future;
use std::pin::Pin;
use std::time::{Duration, Instant};

use serde::{Deserialize, Serialize};
use serde_json::json;
use sierradb::error::WriteError;
use sierradb::writer_thread_pool::AppendResult;
use vcommon::workers::WorkerOut;
use vcommon::{Args, Tier};

use crate::harness::*;
use crate::{Plan, drive};

const DEADLINE: Duration = Duration::from_secs(5);

#[derive(Serialize, Deserialize, Clone, Copy, Debug, PartialEq, Eq, Hash)]
pub enum Mode {
    AwaitNow,
    /// polled exactly once when issued, resumed after step j (j == history length: at the end)
    ParkUntil(usize),
}

#[derive(Serialize, Deserialize, Clone, Debug)]
pub struct Case {
    pub sync: SyncMode,
    pub steps: Vec<(Size, Mode)>,
    /// family B (many concurrent clients on one writer thread); `steps` is empty then
    #[serde(default)]
    pub burst: Option<Burst>,
    /// family C: per step, 0 = the valid append of `steps`, 1 = rejected by the writer for its expected partition
    /// sequence, 2 = a two-event transaction whose second event cannot be encoded (fails after its first event was
    /// written and is cut back), 3 = rejected for its expected stream version; empty = all valid
    #[serde(default)]
    pub rejects: Vec<u8>,
}

fn step_tx(size: Size, reject: u8) -> TxS {
    let mut t = TxS::single(0, 0, size);
    match reject {
        1 => t.exp_seq = ExpS::Cur(9),
        2 => t.events.push(EvS { stream: 0, exp: ExpS::Any, size: Size::Tiny, bad: Bad::Timestamp }),
        3 => t.events[0].exp = ExpS::Cur(9),
        _ => {}
    }
    t
}

/// Family B: 64 buckets on 64 writer threads, so that a writer's request channel holds 16 requests.  The writer
/// of one bucket is stopped at the pause point before its write while it handles a first append; `clients` more
/// appends for the same bucket are issued (each future polled once: sent into the channel, or waiting for room in
/// it); the harness lets `stall_ms` pass (the syncer thread's polls meet a full channel), releases the writer
/// and awaits every future.
#[derive(Serialize, Deserialize, Clone, Copy, Debug, PartialEq, Eq, Hash)]
pub struct Burst {
    pub clients: usize,
    pub stall_ms: u64,
}

fn schedules(len: usize) -> Vec<Vec<Mode>> {
    // per step: AwaitNow or ParkUntil(j) for j in i+1..=len (resumed after a later step or at the end); at most 3 parked
    let mut out: Vec<Vec<Mode>> = vec![vec![]];
    for i in 0..len {
        let mut next = Vec::new();
        for s in &out {
            let mut a = s.clone();
            a.push(Mode::AwaitNow);
            next.push(a);
            if s.iter().filter(|m| matches!(m, Mode::ParkUntil(_))).count() < 3 {
                for j in (i + 1)..=len {
                    let mut b = s.clone();
                    b.push(Mode::ParkUntil(j));
                    next.push(b);
                }
            }
        }
        out = next;
    }
    out
}

pub fn cases(tier: Tier) -> Vec<Case> {
    let sizes = [Size::Block, Size::Tiny, Size::Kb5];
    let syncs: Vec<SyncMode> = if tier.is_thorough() {
        vec![SyncMode::Custom(5, 10, usize::MAX, usize::MAX), SyncMode::Custom(5, 10, 2, usize::MAX), SyncMode::Custom(5, 10, usize::MAX, 4096), SyncMode::Defaults, SyncMode::EveryWrite]
    } else {
        vec![SyncMode::Custom(5, 10, usize::MAX, usize::MAX), SyncMode::Custom(5, 10, 2, usize::MAX)]
    };
    let max_len = if tier.is_thorough() { 5 } else { 4 };
    let mut v = Vec::new();
    let mut hists: Vec<Vec<Size>> = vec![vec![]];
    for len in 1..=max_len {
        let mut next = Vec::new();
        for h in &hists {
            for &s in &sizes {
                let mut n = h.clone();
                n.push(s);
                next.push(n);
            }
        }
        for h in &next {
            // lengths above 3 only for histories with a rollover (three or more 50 KiB appends): that is where the watch is replaced
            let blocks = h.iter().filter(|s| **s == Size::Block).count();
            if len > 3 && blocks < 3 {
                continue;
            }
            if !tier.is_thorough() && len == 4 && blocks < 4 && h[3] != Size::Tiny {
                continue;
            }
            for sched in schedules(len) {
                for &sync in &syncs {
                    v.push(Case { sync, steps: h.iter().copied().zip(sched.iter().copied()).collect(), burst: None, rejects: vec![] });
                }
            }
        }
        hists = next;
    }
    // family C: rejected appends between appends that are still waiting for their sync
    {
        // (size, reject kind)
        let alpha: Vec<(Size, u8)> = if tier.is_thorough() { vec![(Size::Tiny, 0), (Size::Kb5, 0), (Size::Tiny, 1), (Size::Tiny, 2), (Size::Tiny, 3), (Size::Kb5, 2)] } else { vec![(Size::Tiny, 0), (Size::Tiny, 1), (Size::Tiny, 2), (Size::Tiny, 3)] };
        let mut hs: Vec<Vec<(Size, u8)>> = vec![vec![]];
        for len in 1..=3usize {
            let mut next = Vec::new();
            for h in &hs {
                for &a in &alpha {
                    let mut n = h.clone();
                    n.push(a);
                    next.push(n);
                }
            }
            for h in &next {
                let rejected = h.iter().filter(|a| a.1 != 0).count();
                if len < 2 || rejected == 0 || rejected == len {
                    continue;
                }
                for sched in schedules(len) {
                    for &sync in &syncs {
                        v.push(Case { sync, steps: h.iter().map(|a| a.0).zip(sched.iter().copied()).collect(), burst: None, rejects: h.iter().map(|a| a.1).collect() });
                    }
                }
            }
            hs = next;
        }
    }
    // family B
    let bursts: Vec<usize> = if tier.is_thorough() { vec![1, 8, 15, 16, 17, 18, 24, 40] } else { vec![8, 16, 17, 24] };
    for &sync in &[SyncMode::Custom(5, 10, usize::MAX, usize::MAX), SyncMode::Defaults, SyncMode::Custom(5, 10, 2, usize::MAX)] {
        for &clients in &bursts {
            for stall_ms in [0u64, 40] {
                v.push(Case { sync, steps: vec![], burst: Some(Burst { clients, stall_ms }), rejects: vec![] });
            }
        }
    }
    v
}

fn run_burst(case: &Case, b: Burst, out: &mut WorkerOut) {
    use sierradb::verif as pause;
    pause::disable_all();
    let cfg = DbCfg { seg: MIN_SEG, compression: true, sync: case.sync, buckets: 64, writer_threads: 64, reader_threads: 2 };
    let mut h = match H::new(cfg, "c20b") {
        Ok(h) => h,
        Err(e) => vcommon::machinery_fail(&format!("open: {e}")),
    };
    let case_json = serde_json::to_value(case).unwrap();
    let mut futs: Vec<Fut> = Vec::new();
    let mut issue = |h: &mut H, futs: &mut Vec<Fut>| {
        let (_m, rtx) = h.build(&TxS::single(0, 0, Size::Tiny));
        let db = h.db().clone();
        let rtx = rtx.unwrap();
        let mut fut: Fut = Box::pin(async move { db.append_events(rtx).await });
        // one poll: through the channel send (or up to the wait for room in the channel)
        let _ = h.rt.block_on(async { futures::poll!(fut.as_mut()).is_ready() });
        futs.push(fut);
    };
    pause::enable("append:before-write");
    issue(&mut h, &mut futs);
    if !pause::wait_parked("append:before-write", Duration::from_secs(20)) {
        pause::disable_all();
        vcommon::machinery_fail("C20 family B: the writer never reached the pause point before its write");
    }
    for _ in 0..b.clients {
        issue(&mut h, &mut futs);
        out.transitions += 1;
    }
    if b.stall_ms > 0 {
        std::thread::sleep(Duration::from_millis(b.stall_ms));
    }
    pause::disable_all();
    let mut slow = 0u64;
    for (i, f) in futs.iter_mut().enumerate() {
        out.transitions += 1;
        if !await_bounded(&h, f, &mut slow) {
            out.violation(
                &format!("C20/append-never-completed/burst/{}", if b.clients >= 16 { "channel-full" } else { "channel-not-full" }),
                &format!("append #{i} of a burst of 1 + {} concurrent appends to one writer thread (stalled for {} ms before its first write, request channel of 16) did not return within {DEADLINE:?} + {GRACE:?} [sync {:?}]", b.clients, b.stall_ms, case.sync),
                case_json.clone(),
            );
            return;
        }
    }
    // the writer pool must still be alive for the next client
    let (_m, rtx) = h.build(&TxS::single(0, 0, Size::Tiny));
    let db = h.db().clone();
    let rtx = rtx.unwrap();
    let mut last: Fut = Box::pin(async move { db.append_events(rtx).await });
    if !await_bounded(&h, &mut last, &mut slow) {
        out.violation(
            &format!("C20/append-never-completed/after-burst/{}", if b.clients >= 16 { "channel-full" } else { "channel-not-full" }),
            &format!("an append issued after a burst of 1 + {} concurrent appends (writer stalled for {} ms, request channel of 16) had completed did not return within {DEADLINE:?} + {GRACE:?} [sync {:?}]", b.clients, b.stall_ms, case.sync),
            case_json.clone(),
        );
        return;
    }
    out.count("appends_that_needed_the_grace_period", slow);
    out.state(vcommon::fnv(format!("{:?}{:?}", case.sync, b).as_bytes()));
    out.outcome("burst-ok");
    if out.cases_done % 20 == 0 {
        out.sample(case_json);
    }
}

type Fut = Pin<Box<dyn Future<Output = Result<AppendResult, WriteError>>>>;
const GRACE: Duration = Duration::from_secs(30);

/// Awaits with the deadline; a miss is followed by one longer wait so that a machine that is merely slow (other jobs
/// competing for the cores) is told apart from a wake-up that never comes.  Returns false if neither wait ends.
fn await_bounded(h: &H, f: &mut Fut, slow: &mut u64) -> bool {
    if h.rt.block_on(async { tokio::time::timeout(DEADLINE, f.as_mut()).await }).is_ok() {
        return true;
    }
    if h.rt.block_on(async { tokio::time::timeout(GRACE, f.as_mut()).await }).is_ok() {
        *slow += 1;
        return true;
    }
    false
}

pub fn run_case(case: &Case, out: &mut WorkerOut) {
    if let Some(b) = case.burst {
        return run_burst(case, b, out);
    }
    let cfg = DbCfg::simple(MIN_SEG, true, case.sync);
    let mut h = match H::new(cfg, "c20") {
        Ok(h) => h,
        Err(e) => vcommon::machinery_fail(&format!("open: {e}")),
    };
    let case_json = serde_json::to_value(case).unwrap();
    let n = case.steps.len();
    let mut parked: Vec<(usize, usize, Fut, Instant)> = Vec::new(); // (issued at step, resume after step, future, issued time)
    let mut worst = Duration::ZERO;
    let mut slow = 0u64;
    let mut report = |out: &mut WorkerOut, kind: &str, detail: String| {
        let rolled = case.steps.iter().filter(|(s, _)| *s == Size::Block).count() >= 3;
        let fam = if case.rejects.iter().any(|r| *r != 0) { "/with-rejected-appends" } else { "" };
        out.violation(&format!("C20/{kind}/{}{fam}", if rolled { "with-rollover" } else { "no-rollover" }), &format!("{detail} [sync {:?} steps {:?} rejects {:?}]", case.sync, case.steps, case.rejects), case_json.clone());
    };
    for (i, (size, mode)) in case.steps.iter().enumerate() {
        out.transitions += 1;
        let (_m, rtx) = h.build(&step_tx(*size, case.rejects.get(i).copied().unwrap_or(0)));
        let db = h.db().clone();
        let rtx = rtx.unwrap();
        let mut fut: Fut = Box::pin(async move { db.append_events(rtx).await });
        match mode {
            Mode::AwaitNow => {
                let t0 = Instant::now();
                match await_bounded(&h, &mut fut, &mut slow) {
                    true => worst = worst.max(t0.elapsed()),
                    false => {
                        report(out, "append-never-completed/awaited-at-once", format!("append #{i} awaited immediately did not return within {DEADLINE:?} + {GRACE:?}"));
                        return;
                    }
                }
            }
            Mode::ParkUntil(j) => {
                // exactly one poll: runs the future through the channel send up to the wait for the reply (or further)
                let ready = h.rt.block_on(async { futures::poll!(fut.as_mut()).is_ready() });
                if !ready {
                    parked.push((i, *j, fut, Instant::now()));
                }
            }
        }
        // resume the futures whose turn it is (after step i+1 in 1-based terms = j == i+1)
        let mut k = 0;
        while k < parked.len() {
            if parked[k].1 == i + 1 {
                let (issued, _, mut f, _) = parked.remove(k);
                out.transitions += 1;
                let t0 = Instant::now();
                match await_bounded(&h, &mut f, &mut slow) {
                    true => worst = worst.max(t0.elapsed()),
                    false => {
                        report(out, "append-never-completed/parked-then-resumed", format!("append #{issued} (polled once, resumed after step {}) did not return within {DEADLINE:?} + {GRACE:?} of being resumed", i + 1));
                        return;
                    }
                }
            } else {
                k += 1;
            }
        }
    }
    for (issued, _, mut f, _) in parked {
        out.transitions += 1;
        if !await_bounded(&h, &mut f, &mut slow) {
            report(out, "append-never-completed/parked-then-resumed", format!("append #{issued} (polled once, resumed at the end of the {n}-step history) did not return within {DEADLINE:?} + {GRACE:?}"));
            return;
        }
    }
    out.count("appends_that_needed_the_grace_period", slow);
    out.state(vcommon::fnv(format!("{:?}{:?}", case.steps, case.rejects).as_bytes()));
    out.outcome(format!("ok/worst<{}ms", (worst.as_millis() / 25 + 1) * 25));
    if out.cases_done % 120 == 0 {
        out.sample(case_json);
    }
}

pub fn run(args: Args) {
    let tier = args.tier;
    let plan = Plan { property: "C20", level: "model_checking", cases: cases(tier), cap: if tier.is_thorough() { Duration::from_secs(1700) } else { Duration::from_secs(55) } };
    drive(args, plan, run_case, |m, total| {
        (
            json!({
                "states": m.states.len(),
                "transitions": m.transitions,
                "traces_validated_against_impl": m.cases_done,
                "samples": m.samples,
                "exhaustive": !m.capped,
                "schedules_enumerated": total,
                "schedules_executed": m.cases_done,
                "distinct_observed_outcomes": m.outcomes.len(),
                "outcomes": m.outcomes,
                "deadline_s": DEADLINE.as_secs(),
                "family_c": "histories of 2..3 steps that mix valid appends with appends the writer rejects (wrong expected partition sequence, wrong expected stream version, a two-event transaction that fails after its first event was written) x every polling schedule: a rejected append between appends that still wait for their sync must not leave them waiting",
                "family_b": "64 buckets on 64 writer threads (request channel of 16 per thread); one writer is stopped before its first write while 1..40 further appends for its bucket are issued, with and without a 40 ms stall during which the syncer thread polls; every append, and one issued afterwards, must complete",
                "rule": "schedule = (sync configuration, history of appends, per append: awaited at once | polled once and resumed after step j or at the end, at most 3 parked); all of them up to the stated history length; states = distinct (history, polling schedule)",
            }),
            vec![
                "'bounded time' is judged with a 5 s deadline, 100x the slowest configured sync interval (50 ms), followed on a miss by one 30 s grace wait (a loaded machine is slow, a lost wake-up is for ever); appends that needed the grace period are counted in the evidence; a miss of both is reported with the polling schedule that produced it".into(),
                "the writer and syncer threads run freely between the harness's polls; what is owned is when each client future is polled".into(),
            ],
        )
    })
}
