//! C15 — concurrent readers see acknowledged writes and never go backwards.
//!
//! Model checking at seam granularity (hook H2).  The writer thread executes a fixed script: two
//! acknowledged appends that fill the live segment, then a third append that triggers a rollover.
//! During the third append the writer is stopped at every pause point, in order:
//!
//!   issue -> sync:after-fsync -> rollover:after-sync -> rollover:before-index-swap ->
//!   rollover:after-index-swap -> rollover:between-add-segments -> rollover:end ->
//!   append:before-write -> sync:after-fsync -> append:after-write -> append:before-reply -> done
//!
//! A reader program is a short sequence of public calls; a call may additionally be split in two at
//! one of its internal pause points (between the segment-id load and the index read of an iterator,
//! between the live-index lookup and the reader-pool lookup of a point read, between the cache read
//! and the pool read of a segment iterator).  Every merge order of the reader's (half-)steps with
//! the writer's positions is executed.

use std::sync::mpsc;
use std::time::Duration;

use serde::{Deserialize, Serialize};
use serde_json::json;
use sierradb::database::Database;
use sierradb::verif as pause;
use sierradb::{IterDirection, StreamId};
use uuid::Uuid;
use vcommon::workers::WorkerOut;
use vcommon::{Args, Tier};

use crate::harness::*;
use crate::{Plan, drive};

pub const WRITER_POINTS: [&str; 10] = [
    "sync:after-fsync",
    "rollover:after-sync",
    "rollover:before-index-swap",
    "rollover:after-index-swap",
    "rollover:between-add-segments",
    "rollover:end",
    "append:before-write",
    "sync:after-fsync",
    "append:after-write",
    "append:before-reply",
];
/// writer positions: 0 = third append not yet issued, i in 1..=10 = parked at WRITER_POINTS[i-1], 11 = acknowledged
pub const N_POS: usize = WRITER_POINTS.len() + 2;

#[derive(Serialize, Deserialize, Clone, Copy, Debug, PartialEq, Eq, Hash)]
pub enum Call {
    ReadEvent(u8), // 0/1 = events of the two acknowledged appends, 2 = the event of the third append
    StreamVersion,
    PartitionSequence,
    StreamScan,
    PartitionScan,
    ReverseStreamScan,
    /// forward scans that start at the position of the third append's event
    StreamScanFrom2,
    PartitionScanFrom2,
}

#[derive(Serialize, Deserialize, Clone, Debug, PartialEq, Eq, Hash)]
pub struct Step {
    pub call: Call,
    /// internal pause point at which the call is split (the writer may advance in between)
    pub split: Option<String>,
    /// writer position at which the call starts
    pub at: usize,
    /// writer position at which the second half runs (>= at); ignored without split
    pub resume_at: usize,
}

#[derive(Serialize, Deserialize, Clone, Debug)]
pub struct Case {
    pub compression: bool,
    pub steps: Vec<Step>,
    /// family B (long-lived iterator across whole appends and rollovers); `steps` is empty then
    #[serde(default)]
    pub iter: Option<IterCase>,
}

#[derive(Serialize, Deserialize, Clone, Copy, Debug, PartialEq, Eq, Hash)]
pub enum IterKind {
    Stream,
    StreamReverse,
    Partition,
}

/// Family B: `pre` acknowledged appends, then an iterator is opened at `from`, `reads[0]` batches are
/// read, `mids[0]` more appends are acknowledged, `reads[1]` batches, `mids[1]` appends, then the
/// iterator is drained.  Appends are ~50 KiB events (every second one seals a 128 KiB segment); with
/// `mix` every second append goes to another stream of the same partition.
#[derive(Serialize, Deserialize, Clone, Debug, PartialEq, Eq, Hash)]
pub struct IterCase {
    pub kind: IterKind,
    pub from: u64,
    pub batch: usize,
    pub mix: bool,
    pub pre: usize,
    pub reads: [usize; 2],
    pub mids: [usize; 2],
}

fn call_class(c: Call) -> &'static str {
    match c {
        Call::ReadEvent(_) => "read_event",
        Call::StreamVersion | Call::PartitionSequence => "version-query",
        _ => "scan",
    }
}

fn splits_for(c: Call) -> Vec<&'static str> {
    match c {
        Call::ReadEvent(_) => vec!["read_transaction:after-index-lookup"],
        Call::StreamVersion => vec!["get_stream_version:after-live-miss"],
        Call::PartitionSequence => vec!["get_partition_sequence:after-live-miss"],
        Call::StreamScan | Call::PartitionScan | Call::ReverseStreamScan | Call::StreamScanFrom2 | Call::PartitionScanFrom2 => {
            vec!["iter:after-segment-id-load", "iter:before-closed-segments", "segiter:between-cache-and-pool"]
        }
    }
}

fn static_label(s: &str) -> &'static str {
    for l in ["read_transaction:after-index-lookup", "get_stream_version:after-live-miss", "get_partition_sequence:after-live-miss", "iter:after-segment-id-load", "iter:before-closed-segments", "segiter:between-cache-and-pool"] {
        if l == s {
            return l;
        }
    }
    vcommon::machinery_fail(&format!("unknown split label {s}"))
}

pub fn cases(tier: Tier) -> Vec<Case> {
    let calls = [
        Call::ReadEvent(0),
        Call::ReadEvent(1),
        Call::ReadEvent(2),
        Call::StreamVersion,
        Call::PartitionSequence,
        Call::StreamScan,
        Call::PartitionScan,
        Call::ReverseStreamScan,
        Call::StreamScanFrom2,
        Call::PartitionScanFrom2,
    ];
    let mut v = Vec::new();
    let comps: Vec<bool> = if tier.is_thorough() { vec![true, false] } else { vec![true] };
    for &compression in &comps {
        // one call, unsplit, at every writer position
        for &c in &calls {
            for at in 0..N_POS {
                v.push(Case { compression, iter: None, steps: vec![Step { call: c, split: None, at, resume_at: at }] });
            }
            // one call split at each of its internal points: all (start, resume) pairs
            for s in splits_for(c) {
                for at in 0..N_POS {
                    for resume_at in at..N_POS {
                        // quick: far-apart (start, resume) pairs only for the split whose two halves read two different
                        // pieces of published state (segment id, then index)
                        if !tier.is_thorough() && resume_at > at + 4 && s != "iter:after-segment-id-load" {
                            continue;
                        }
                        v.push(Case { compression, iter: None, steps: vec![Step { call: c, split: Some(s.to_string()), at, resume_at }] });
                    }
                }
            }
        }
        // two unsplit calls: all ordered position pairs (monotonicity between the two observations)
        let pair_calls: Vec<Call> = if tier.is_thorough() { calls.to_vec() } else { vec![Call::ReadEvent(0), Call::StreamVersion, Call::StreamScan, Call::PartitionSequence] };
        for &c1 in &pair_calls {
            for &c2 in &pair_calls {
                if !tier.is_thorough() && c1 != c2 {
                    continue;
                }
                for a in 0..N_POS {
                    for b in a..N_POS {
                        if a == b {
                            continue;
                        }
                        v.push(Case { compression, iter: None, steps: vec![Step { call: c1, split: None, at: a, resume_at: a }, Step { call: c2, split: None, at: b, resume_at: b }] });
                    }
                }
            }
        }
    }
    v.extend(iter_cases(tier));
    v
}

/// Family B grid.
fn iter_cases(tier: Tier) -> Vec<Case> {
    let mut v = Vec::new();
    let thorough = tier.is_thorough();
    let kinds = [IterKind::Stream, IterKind::Partition, IterKind::StreamReverse];
    let batches: &[usize] = if thorough { &[1, 2, 50] } else { &[1, 50] };
    let pres: Vec<usize> = if thorough { (0..=6).collect() } else { vec![1, 3, 5] };
    for &kind in &kinds {
        for &batch in batches {
            for &mix in &[false, true] {
                if mix && !thorough && batch != 1 {
                    continue;
                }
                for &pre in &pres {
                    let froms: Vec<u64> = if kind == IterKind::StreamReverse { vec![u64::MAX] } else if thorough { vec![0, 1, pre as u64] } else { vec![0, pre as u64] };
                    for &from in &froms {
                        let r0s: Vec<usize> = if thorough { vec![0, 1, 2] } else { vec![0, 1] };
                        for &r0 in &r0s {
                            for m0 in if thorough { vec![1usize, 2, 3, 4] } else { vec![2usize, 4] } {
                                for (r1, m1) in if thorough { vec![(0usize, 0usize), (1, 2), (2, 1)] } else { vec![(0usize, 0usize), (1, 2)] } {
                                    v.push(Case { compression: true, steps: vec![], iter: Some(IterCase { kind, from, batch, mix, pre, reads: [r0, r1], mids: [m0, m1] }) });
                                }
                            }
                        }
                    }
                }
            }
        }
    }
    v.sort_by_key(|c| serde_json::to_string(c).unwrap());
    v.dedup_by_key(|c| serde_json::to_string(c).unwrap());
    v
}

enum OpenIter {
    S(sierradb::bucket::iter::StreamIter),
    P(sierradb::bucket::iter::PartitionIter),
}

fn run_iter_case(case: &Case, ic: &IterCase, out: &mut WorkerOut) {
    pause::disable_all();
    let cfg = DbCfg::simple(MIN_SEG, case.compression, SyncMode::EveryWrite);
    let mut h = match H::new(cfg, "c15b") {
        Ok(h) => h,
        Err(e) => vcommon::machinery_fail(&format!("open: {e}")),
    };
    let case_json = serde_json::to_value(case).unwrap();
    let part = partition_of(0);
    // ids of the events the scan is about (stream s0, or the whole partition), in position order
    let mut wanted: Vec<u128> = Vec::new();
    let mut n_appends = 0usize;
    let mut append = |h: &mut H, wanted: &mut Vec<u128>| -> bool {
        let stream = if ic.mix && n_appends % 2 == 1 { 1 } else { 0 };
        n_appends += 1;
        let id = event_id(0, h.counter + 1).as_u128();
        if h.append(&TxS::single(0, stream, Size::Block)).is_err() {
            return false;
        }
        if stream == 0 || ic.kind == IterKind::Partition {
            wanted.push(id);
        }
        true
    };
    for _ in 0..ic.pre {
        if !append(&mut h, &mut wanted) {
            out.outcome("setup-problem");
            return;
        }
    }
    let acked_at_open = wanted.len();
    let db = h.db().clone();
    let opened = h.rt.block_on(async {
        match ic.kind {
            IterKind::Stream => db.read_stream(part, StreamId::new("s0").unwrap(), ic.from, IterDirection::Forward).await.map(OpenIter::S).map_err(|e| e.to_string()),
            IterKind::StreamReverse => db.read_stream(part, StreamId::new("s0").unwrap(), ic.from, IterDirection::Reverse).await.map(OpenIter::S).map_err(|e| e.to_string()),
            IterKind::Partition => db.read_partition(part, ic.from, IterDirection::Forward).await.map(OpenIter::P).map_err(|e| e.to_string()),
        }
    });
    let mut it = match opened {
        Ok(it) => it,
        Err(e) => {
            out.violation(&format!("C15/iterator/open-failed/{:?}", ic.kind), &format!("opening the scan failed with a healthy disk: {e}"), case_json);
            return;
        }
    };
    let mut got: Vec<u128> = Vec::new();
    let mut error: Option<String> = None;
    let mut exhausted_reads = 0u32;
    let mut read = |h: &H, it: &mut OpenIter, got: &mut Vec<u128>, n: Option<usize>| {
        let mut k = 0;
        loop {
            if let Some(n) = n {
                if k >= n {
                    break;
                }
            }
            k += 1;
            if k > 200 {
                error = Some("the scan does not terminate".into());
                break;
            }
            let r = h.rt.block_on(async {
                tokio::time::timeout(Duration::from_secs(20), async {
                    match it {
                        OpenIter::S(i) => i.next_batch(ic.batch).await.map_err(|e| e.to_string()),
                        OpenIter::P(i) => i.next_batch(ic.batch).await.map_err(|e| e.to_string()),
                    }
                })
                .await
            });
            match r {
                Err(_) => {
                    error = Some("next_batch did not return within 20 s".into());
                    break;
                }
                Ok(Err(e)) => {
                    error = Some(e);
                    break;
                }
                Ok(Ok(None)) => {
                    exhausted_reads += 1;
                    if n.is_none() {
                        break;
                    }
                }
                Ok(Ok(Some(b))) => {
                    for g in b {
                        got.extend(g.into_iter().filter(|e| ic.kind == IterKind::Partition || e.stream_id.as_ref() as &str == "s0").map(|e| e.event_id.as_u128()));
                    }
                }
            }
        }
    };
    out.transitions += 1;
    for phase in 0..2 {
        read(&h, &mut it, &mut got, Some(ic.reads[phase]));
        out.transitions += ic.reads[phase] as u64;
        for _ in 0..ic.mids[phase] {
            if !append(&mut h, &mut wanted) {
                out.outcome("setup-problem");
                return;
            }
            out.transitions += 1;
        }
    }
    read(&h, &mut it, &mut got, None);
    drop(it);
    let pos = |ids: &[u128]| -> Vec<String> { ids.iter().map(|g| wanted.iter().position(|x| x == g).map(|p| format!("#{p}")).unwrap_or("?".into())).collect() };
    let label = format!("{:?}/mix={}", ic.kind, ic.mix);
    if let Some(e) = error {
        out.violation(&format!("C15/iterator/read-error/{label}"), &format!("next_batch failed with a healthy disk: {e} [{}]", serde_json::to_string(ic).unwrap()), case_json.clone());
    } else {
        // expected: a contiguous run that starts at the start position and covers at least everything
        // acknowledged before the scan was opened
        let ok = if ic.kind == IterKind::StreamReverse {
            let n = got.len();
            n >= acked_at_open && n <= wanted.len() && got.iter().rev().eq(wanted[..n].iter())
        } else {
            let from = (ic.from as usize).min(wanted.len());
            let must = acked_at_open.saturating_sub(from);
            got.len() >= must && from + got.len() <= wanted.len() && got[..] == wanted[from..from + got.len()]
        };
        if !ok {
            let what = if got.len() < acked_at_open.saturating_sub(if ic.kind == IterKind::StreamReverse { 0 } else { ic.from as usize }) { "lost-acked-events" } else { "wrong-sequence" };
            out.violation(
                &format!("C15/iterator/{what}/{label}"),
                &format!(
                    "a scan opened after {acked_at_open} matching events were acknowledged (start {}), read across {} more appends, returned positions {:?} [{}]",
                    if ic.from == u64::MAX { "newest".to_string() } else { ic.from.to_string() },
                    ic.mids[0] + ic.mids[1],
                    pos(&got),
                    serde_json::to_string(ic).unwrap()
                ),
                case_json.clone(),
            );
        }
    }
    out.state(vcommon::fnv(format!("{:?}{}{}", ic, got.len(), exhausted_reads).as_bytes()));
    out.outcome(format!("iter:{:?}:{}of{}", ic.kind, got.len(), wanted.len()));
    if out.cases_done % 80 == 0 {
        out.sample(case_json);
    }
}

/// What a call observed, reduced to what the oracle needs.
#[derive(Debug, Clone, PartialEq)]
pub enum Obs {
    Event(Option<u128>),
    Version(Option<u64>),
    Ids(Vec<u128>),
    Error(String),
}

fn do_call(rt: &tokio::runtime::Runtime, db: &Database, c: Call, ids: &[Uuid; 3]) -> Obs {
    let part = partition_of(0);
    let r = rt.block_on(async {
        tokio::time::timeout(Duration::from_secs(20), async {
            match c {
                Call::ReadEvent(i) => match db.read_event(part, ids[i as usize]).await {
                    Ok(e) => Obs::Event(e.map(|e| e.event_id.as_u128())),
                    Err(e) => Obs::Error(e.to_string()),
                },
                Call::StreamVersion => match db.get_stream_version(part, &StreamId::new("s0").unwrap()).await {
                    Ok(v) => Obs::Version(v.map(|x| x.version)),
                    Err(e) => Obs::Error(e.to_string()),
                },
                Call::PartitionSequence => match db.get_partition_sequence(part).await {
                    Ok(v) => Obs::Version(v.map(|x| x.sequence)),
                    Err(e) => Obs::Error(e.to_string()),
                },
                Call::StreamScan | Call::ReverseStreamScan | Call::PartitionScan | Call::StreamScanFrom2 | Call::PartitionScanFrom2 => {
                    let mut out = Vec::new();
                    let res: Result<(), String> = async {
                        if matches!(c, Call::PartitionScan | Call::PartitionScanFrom2) {
                            let from = if matches!(c, Call::PartitionScanFrom2) { 2 } else { 0 };
                            let mut it = db.read_partition(part, from, IterDirection::Forward).await.map_err(|e| e.to_string())?;
                            while let Some(b) = it.next_batch(2).await.map_err(|e| e.to_string())? {
                                for g in b {
                                    out.extend(g.into_iter().map(|e| e.event_id.as_u128()));
                                }
                            }
                        } else {
                            let (from, dir) = match c {
                                Call::StreamScan => (0, IterDirection::Forward),
                                Call::StreamScanFrom2 => (2, IterDirection::Forward),
                                _ => (u64::MAX, IterDirection::Reverse),
                            };
                            let mut it = db.read_stream(part, StreamId::new("s0").unwrap(), from, dir).await.map_err(|e| e.to_string())?;
                            while let Some(b) = it.next_batch(2).await.map_err(|e| e.to_string())? {
                                for g in b {
                                    out.extend(g.into_iter().map(|e| e.event_id.as_u128()));
                                }
                            }
                        }
                        Ok(())
                    }
                    .await;
                    match res {
                        Ok(()) => Obs::Ids(out),
                        Err(e) => Obs::Error(e),
                    }
                }
            }
        })
        .await
    });
    r.unwrap_or(Obs::Error("read call did not return within 20 s".into()))
}

struct Writer {
    pos: usize,
    appender: Option<std::thread::JoinHandle<bool>>,
    db: Database,
    tx: Option<sierradb::database::Transaction>,
}

impl Writer {
    fn advance_to(&mut self, target: usize) -> Result<(), String> {
        while self.pos < target {
            if self.pos == 0 {
                let db = self.db.clone();
                let tx = self.tx.take().unwrap();
                self.appender = Some(std::thread::spawn(move || {
                    let rt = new_rt();
                    matches!(rt.block_on(async move { tokio::time::timeout(Duration::from_secs(30), db.append_events(tx)).await }), Ok(Ok(_)))
                }));
            } else if self.pos <= WRITER_POINTS.len() {
                pause::release(WRITER_POINTS[self.pos - 1]);
            }
            self.pos += 1;
            if self.pos <= WRITER_POINTS.len() {
                if !pause::wait_parked(WRITER_POINTS[self.pos - 1], Duration::from_secs(10)) {
                    return Err(format!("the writer never reached {} (position {})", WRITER_POINTS[self.pos - 1], self.pos));
                }
            } else {
                // acknowledged
                let ok = self.appender.take().unwrap().join().unwrap_or(false);
                if !ok {
                    return Err("the third append failed or never returned".into());
                }
            }
        }
        Ok(())
    }
}

pub fn run_case(case: &Case, out: &mut WorkerOut) {
    if let Some(ic) = &case.iter {
        return run_iter_case(case, ic, out);
    }
    pause::disable_all();
    let cfg = DbCfg::simple(MIN_SEG, case.compression, SyncMode::EveryWrite);
    let mut h = match H::new(cfg, "c15") {
        Ok(h) => h,
        Err(e) => vcommon::machinery_fail(&format!("open: {e}")),
    };
    // two acknowledged appends that fill the live segment
    let c0 = h.counter + 1;
    if h.append(&TxS::single(0, 0, Size::Block)).is_err() {
        out.outcome("setup-problem");
        return;
    }
    let c1 = h.counter + 1;
    if h.append(&TxS::single(0, 0, Size::Block)).is_err() {
        out.outcome("setup-problem");
        return;
    }
    let c2 = h.counter + 1;
    let (_m, rtx) = h.build(&TxS::single(0, 0, Size::Block));
    let ids = [event_id(0, c0), event_id(0, c1), event_id(0, c2)];
    for l in WRITER_POINTS {
        pause::enable(l);
    }
    let mut w = Writer { pos: 0, appender: None, db: h.db().clone(), tx: Some(rtx.unwrap()) };

    // the reader lives on its own thread so that a call parked at an internal pause point does not block the harness
    let (cmd_tx, cmd_rx) = mpsc::channel::<Call>();
    let (res_tx, res_rx) = mpsc::channel::<Obs>();
    let rdb = h.db().clone();
    let reader = std::thread::spawn(move || {
        let rt = new_rt();
        while let Ok(c) = cmd_rx.recv() {
            let o = do_call(&rt, &rdb, c, &ids);
            if res_tx.send(o).is_err() {
                break;
            }
        }
    });

    let case_json = serde_json::to_value(case).unwrap();
    let mut observations: Vec<(Step, Obs, usize, usize)> = Vec::new(); // (step, obs, start pos, end pos)
    let mut fail: Option<(String, String)> = None;
    let mut blocked_steps = 0u64;
    'steps: for st in &case.steps {
        if let Err(e) = w.advance_to(st.at) {
            fail = Some(("writer-stuck".into(), e));
            break;
        }
        out.transitions += 1;
        let start_pos = w.pos;
        let label = st.split.as_deref().map(static_label);
        if let Some(l) = label {
            pause::enable(l);
        }
        cmd_tx.send(st.call).unwrap();
        let mut obs = None;
        if label.is_none() {
            // a reader that blocks on the live-index lock while the writer is parked inside the locked part of the
            // rollover is not enabled: move the writer on, one position at a time, until the call returns
            loop {
                match res_rx.recv_timeout(Duration::from_millis(if w.pos == 0 || w.pos >= N_POS - 1 { 25_000 } else { 150 })) {
                    Ok(o) => {
                        obs = Some(o);
                        break;
                    }
                    Err(_) => {
                        if w.pos >= N_POS - 1 {
                            fail = Some(("reader-stuck".into(), format!("{:?} did not return", st.call)));
                            break 'steps;
                        }
                        blocked_steps += 1;
                        if let Err(e) = w.advance_to(w.pos + 1) {
                            fail = Some(("writer-stuck".into(), e));
                            break 'steps;
                        }
                    }
                }
            }
        }
        if let Some(l) = label {
            // wait until the call parks at the split point or finishes without reaching it
            let deadline = std::time::Instant::now() + Duration::from_secs(25);
            let mut blocked_since = std::time::Instant::now();
            loop {
                if let Ok(o) = res_rx.try_recv() {
                    obs = Some(o);
                    break;
                }
                if pause::is_parked(l) {
                    break;
                }
                if std::time::Instant::now() > deadline {
                    fail = Some(("reader-stuck".into(), format!("{:?} neither returned nor reached {l}", st.call)));
                    break 'steps;
                }
                if blocked_since.elapsed() > Duration::from_millis(150) && w.pos > 0 && w.pos < N_POS - 1 {
                    // blocked on the live-index lock held by the parked writer: not enabled here, move the writer on
                    blocked_steps += 1;
                    if let Err(e) = w.advance_to(w.pos + 1) {
                        fail = Some(("writer-stuck".into(), e));
                        break 'steps;
                    }
                    blocked_since = std::time::Instant::now();
                }
                std::thread::sleep(Duration::from_micros(50));
            }
            if obs.is_none() {
                // parked: let the writer move, then resume the call
                if let Err(e) = w.advance_to(st.resume_at.max(w.pos)) {
                    fail = Some(("writer-stuck".into(), e));
                    pause::disable(l);
                    break;
                }
                out.transitions += 1;
            }
            pause::disable(l);
        }
        #[allow(clippy::never_loop)]
        let o = match obs {
            Some(o) => o,
            None => loop {
                match res_rx.recv_timeout(Duration::from_millis(if w.pos >= N_POS - 1 { 25_000 } else { 150 })) {
                    Ok(o) => break o,
                    Err(_) => {
                        if w.pos >= N_POS - 1 {
                            fail = Some(("reader-stuck".into(), format!("{:?} did not return", st.call)));
                            break 'steps;
                        }
                        blocked_steps += 1;
                        if let Err(e) = w.advance_to(w.pos + 1) {
                            fail = Some(("writer-stuck".into(), e));
                            break 'steps;
                        }
                    }
                }
            },
        };
        observations.push((st.clone(), o, start_pos, w.pos));
    }
    // let the writer finish
    let finish = w.advance_to(N_POS - 1);
    pause::disable_all();
    drop(cmd_tx);
    let _ = reader.join();
    if fail.is_none() {
        if let Err(e) = finish {
            fail = Some(("writer-stuck".into(), e));
        }
    }

    // oracle
    let idv: Vec<u128> = ids.iter().map(|i| i.as_u128()).collect();
    let mut problems: Vec<(String, String)> = fail.into_iter().collect();
    for (st, o, start_pos, end_pos) in &observations {
        let acked_third = *start_pos >= N_POS - 1;
        let wname = |p: usize| if p == 0 { "before-rollover".to_string() } else if p >= N_POS - 1 { "after-ack".to_string() } else { WRITER_POINTS[p - 1].to_string() };
        let window = if start_pos == end_pos { format!("at={}", wname(*start_pos)) } else { format!("split={}/resumed={}", st.split.clone().unwrap_or_default(), wname(*end_pos)) };
        match (st.call, o) {
            (_, Obs::Error(e)) => problems.push((format!("read-error/{}/{window}", call_class(st.call)), format!("{:?} failed with a healthy disk: {e}", st.call))),
            (Call::ReadEvent(i), Obs::Event(got)) => {
                let must = i < 2 || acked_third;
                if must && *got != Some(idv[i as usize]) {
                    problems.push((format!("acked-event-not-visible/{window}"), format!("read_event of acknowledged event #{i} returned {got:?}")));
                }
                if let Some(g) = got {
                    if *g != idv[i as usize] {
                        problems.push((format!("wrong-event/{window}"), format!("read_event of event #{i} returned another event")));
                    }
                }
            }
            (Call::StreamVersion | Call::PartitionSequence, Obs::Version(v)) => {
                let min = if acked_third { 2 } else { 1 };
                if v.map(|x| x < min).unwrap_or(true) || v.map(|x| x > 2).unwrap_or(false) {
                    problems.push((format!("version-behind-acked/{}/{window}", call_class(st.call)), format!("{:?} returned {v:?} although version/sequence {min} was acknowledged before the call started", st.call)));
                }
            }
            (Call::StreamScanFrom2 | Call::PartitionScanFrom2, Obs::Ids(got)) => {
                let ok = (got.is_empty() && !acked_third) || *got == vec![idv[2]];
                if !ok {
                    let pos: Vec<String> = got.iter().map(|g| idv.iter().position(|x| x == g).map(|p| format!("#{p}")).unwrap_or("?".into())).collect();
                    problems.push((format!("scan-wrong/{}/{window}", call_class(st.call)), format!("{:?} (from position 2) returned events {pos:?}", st.call)));
                }
            }
            (Call::StreamScan | Call::PartitionScan | Call::ReverseStreamScan, Obs::Ids(got)) => {
                let need = if acked_third { 3 } else { 2 };
                let mut expect: Vec<u128> = idv[..need].to_vec();
                let mut expect_all: Vec<u128> = idv.to_vec();
                if matches!(st.call, Call::ReverseStreamScan) {
                    expect.reverse();
                    expect_all.reverse();
                }
                let ok = *got == expect || *got == expect_all;
                if !ok {
                    let pos: Vec<String> = got.iter().map(|g| idv.iter().position(|x| x == g).map(|p| format!("#{p}")).unwrap_or("?".into())).collect();
                    problems.push((format!("scan-wrong/{}/{window}", call_class(st.call)), format!("{:?} returned events {pos:?}; events #0..#{} were acknowledged before it started", st.call, need - 1)));
                }
            }
            _ => {}
        }
    }
    // monotonicity between consecutive observations of the same kind
    for wds in observations.windows(2) {
        let (s1, o1, _, _) = &wds[0];
        let (s2, o2, _, _) = &wds[1];
        if s1.call != s2.call {
            continue;
        }
        let back = match (o1, o2) {
            (Obs::Event(Some(_)), Obs::Event(None)) => true,
            (Obs::Version(a), Obs::Version(b)) => b < a,
            (Obs::Ids(a), Obs::Ids(b)) => a.iter().any(|x| !b.contains(x)),
            _ => false,
        };
        if back {
            problems.push((format!("went-backwards/{:?}", s1.call), format!("{:?} observed {o1:?} and later {o2:?}", s1.call)));
        }
    }
    out.count("reader_steps_blocked_by_lock", blocked_steps);
    out.state(vcommon::fnv(format!("{:?}", observations.iter().map(|(s, o, a, b)| (s.call, s.split.clone(), a, b, format!("{o:?}").len())).collect::<Vec<_>>()).as_bytes()));
    out.outcome(format!("{:?}", observations.iter().map(|(s, o, _, _)| format!("{:?}={}", s.call, match o { Obs::Error(_) => "err".to_string(), Obs::Event(e) => format!("{}", e.is_some()), Obs::Version(v) => format!("{v:?}"), Obs::Ids(i) => format!("{}ids", i.len()) })).collect::<Vec<_>>()));
    for (k, d) in problems {
        out.violation(&format!("C15/{k}"), &format!("{d} [steps {}]", serde_json::to_string(&case.steps).unwrap()), case_json.clone());
    }
    if out.cases_done % 60 == 0 {
        out.sample(case_json);
    }
}

pub fn run(args: Args) {
    let tier = args.tier;
    let plan = Plan { property: "C15", level: "model_checking", cases: cases(tier), cap: if tier.is_thorough() { Duration::from_secs(1700) } else { Duration::from_secs(55) } };
    drive(args, plan, run_case, |m, total| {
        (
            json!({
                "states": m.states.len(),
                "transitions": m.transitions,
                "traces_validated_against_impl": m.cases_done,
                "samples": m.samples,
                "exhaustive": !m.capped,
                "schedules_enumerated": total,
                "schedules_executed": m.cases_done,
                "distinct_observed_outcomes": m.outcomes.len(),
                "writer_positions": WRITER_POINTS,
                "reader_split_points": ["read_transaction:after-index-lookup", "get_stream_version:after-live-miss", "get_partition_sequence:after-live-miss", "iter:after-segment-id-load", "iter:before-closed-segments", "segiter:between-cache-and-pool"],
                "family_b": "long-lived iterators (stream forward / reverse, partition) opened after 0..6 acknowledged appends, read in up to two instalments with 1..4 and 0..2 further acknowledged appends (each second one seals a segment) in between, then drained; the scan must return a contiguous run from its start position that covers everything acknowledged before it was opened",
                "rule": "schedule = reader program (1 call unsplit / 1 call split at an internal pause point / 2 calls) x writer positions of each (half-)step, non-decreasing; all of them; every schedule is executed on a real database with the writer thread parked at the stated pause points",
            }),
            vec![
                "seam granularity: writer and reader are stopped at the pause points of hook H2; OS-level interleavings inside a step (rayon broadcast, tokio RwLock hand-off) are not enumerated".into(),
                "one writer thread, one bucket; family A stops the writer inside the rollover of the third append, family B interleaves iterator steps with whole appends across up to three rollovers".into(),
            ],
        )
    })
}
