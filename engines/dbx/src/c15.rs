//! C15 — concurrent readers see acknowledged writes and never go backwards.
//!
//! Model checking at seam granularity (hook H2).  Family A: the writer thread executes one append
//! that triggers a rollover and is stopped at every pause point it reaches, in the order in which it
//! reaches them (the sequence is discovered by a dry run, not assumed).  Two scenarios:
//!
//!   * `Rollover` (sync after every write): two acknowledged appends fill the live segment, the third
//!     append rolls it over;
//!   * `DeferredRollover` (sync every 2 events): an acknowledged two-event transaction, then an
//!     append A that is written but not yet synced (its call is pending), then a two-event
//!     transaction B that does not fit: the rollover's sync acknowledges A while the writer is still
//!     inside the rollover; B's own sync acknowledges B.
//!
//! A reader program is a short sequence of public calls; a call may additionally be split in two at
//! one of its internal pause points (between the segment-id load and the index read of an iterator,
//! between the live-index lookup and the reader-pool lookup of a point read, between the cache read
//! and the pool read of a segment iterator).  Every merge order of the reader's (half-)steps with
//! the writer's positions is executed.  An event must be visible to every call that starts after the
//! append call that wrote it has returned.

use std::sync::Arc;
use std::sync::atomic::{AtomicBool, Ordering};
use std::sync::mpsc;
use std::time::Duration;

use serde::{Deserialize, Serialize};
use serde_json::json;
use sierradb::database::Database;
use sierradb::verif as pause;
use sierradb::{IterDirection, StreamId};
use uuid::Uuid;
use vcommon::workers::WorkerOut;
use vcommon::{Args, Tier};

use crate::harness::*;
use crate::{Plan, drive};

/// The pause points of the writer thread (a set: the order in which an append reaches them is discovered).
pub const WRITER_LABELS: [&str; 9] = [
    "sync:after-fsync",
    "rollover:after-sync",
    "rollover:before-index-swap",
    "rollover:after-index-swap",
    "rollover:between-add-segments",
    "rollover:end",
    "append:before-write",
    "append:after-write",
    "append:before-reply",
];

#[derive(Serialize, Deserialize, Clone, Copy, Debug, PartialEq, Eq, Hash, Default)]
pub enum Scenario {
    #[default]
    Rollover,
    DeferredRollover,
}

impl Scenario {
    fn sync(self) -> SyncMode {
        match self {
            Scenario::Rollover => SyncMode::EveryWrite,
            Scenario::DeferredRollover => SyncMode::EveryEvents(2),
        }
    }
    /// number of events on stream s0 once everything is acknowledged
    pub fn n_events(self) -> usize {
        match self {
            Scenario::Rollover => 3,
            Scenario::DeferredRollover => 5,
        }
    }
    /// index of the first event of the append that is stepped through
    pub fn first_stepped(self) -> usize {
        match self {
            Scenario::Rollover => 2,
            Scenario::DeferredRollover => 3,
        }
    }
    /// prefixes of the event list that do not cut a transaction
    fn tx_boundaries(self) -> &'static [usize] {
        match self {
            Scenario::Rollover => &[0, 1, 2, 3],
            Scenario::DeferredRollover => &[0, 2, 3, 5],
        }
    }
}

fn ten() -> usize {
    10
}

#[derive(Serialize, Deserialize, Clone, Copy, Debug, PartialEq, Eq, Hash)]
pub enum Call {
    ReadEvent(u8), // index into the scenario's event list
    StreamVersion,
    PartitionSequence,
    StreamScan,
    PartitionScan,
    ReverseStreamScan,
    /// forward scans that start at the position of the first event of the append that is stepped through
    StreamScanFrom2,
    PartitionScanFrom2,
}

#[derive(Serialize, Deserialize, Clone, Debug, PartialEq, Eq, Hash)]
pub struct Step {
    pub call: Call,
    /// internal pause point at which the call is split (the writer may advance in between)
    pub split: Option<String>,
    /// writer position at which the call starts
    pub at: usize,
    /// writer position at which the second half runs (>= at); ignored without split
    pub resume_at: usize,
}

#[derive(Serialize, Deserialize, Clone, Debug)]
pub struct Case {
    #[serde(default)]
    pub scenario: Scenario,
    /// number of pause points the stepped append reaches (from the dry run); positions are 0 = not yet issued,
    /// i in 1..=n_parks = parked at the i-th of them, n_parks + 1 = its call has returned
    #[serde(default = "ten")]
    pub n_parks: usize,
    pub compression: bool,
    pub steps: Vec<Step>,
    /// family B (long-lived iterator across whole appends and rollovers); `steps` is empty then
    #[serde(default)]
    pub iter: Option<IterCase>,
}

#[derive(Serialize, Deserialize, Clone, Copy, Debug, PartialEq, Eq, Hash)]
pub enum IterKind {
    Stream,
    StreamReverse,
    Partition,
}

/// Family B: `pre` acknowledged appends, then an iterator is opened at `from`, `reads[0]` batches are
/// read, `mids[0]` more appends are acknowledged, `reads[1]` batches, `mids[1]` appends, then the
/// iterator is drained.  Appends are ~50 KiB events (every second one seals a 128 KiB segment); with
/// `mix` every second append goes to another stream of the same partition.
#[derive(Serialize, Deserialize, Clone, Debug, PartialEq, Eq, Hash)]
pub struct IterCase {
    pub kind: IterKind,
    pub from: u64,
    pub batch: usize,
    pub mix: bool,
    pub pre: usize,
    pub reads: [usize; 2],
    pub mids: [usize; 2],
}

fn call_class(c: Call) -> &'static str {
    match c {
        Call::ReadEvent(_) => "read_event",
        Call::StreamVersion | Call::PartitionSequence => "version-query",
        _ => "scan",
    }
}

fn splits_for(c: Call) -> Vec<&'static str> {
    match c {
        Call::ReadEvent(_) => vec!["read_transaction:after-index-lookup"],
        Call::StreamVersion => vec!["get_stream_version:after-live-miss"],
        Call::PartitionSequence => vec!["get_partition_sequence:after-live-miss"],
        Call::StreamScan | Call::PartitionScan | Call::ReverseStreamScan | Call::StreamScanFrom2 | Call::PartitionScanFrom2 => {
            vec!["iter:after-segment-id-load", "iter:before-closed-segments", "segiter:between-cache-and-pool"]
        }
    }
}

fn static_label(s: &str) -> &'static str {
    for l in ["read_transaction:after-index-lookup", "get_stream_version:after-live-miss", "get_partition_sequence:after-live-miss", "iter:after-segment-id-load", "iter:before-closed-segments", "segiter:between-cache-and-pool"] {
        if l == s {
            return l;
        }
    }
    vcommon::machinery_fail(&format!("unknown split label {s}"))
}

pub fn cases(tier: Tier, parks: &[(Scenario, usize)]) -> Vec<Case> {
    let mut v = Vec::new();
    let comps: Vec<bool> = if tier.is_thorough() { vec![true, false] } else { vec![true] };
    for &(scenario, n_parks) in parks {
        let n_pos = n_parks + 2;
        let calls: Vec<Call> = match scenario {
            Scenario::Rollover => vec![
                Call::ReadEvent(0),
                Call::ReadEvent(1),
                Call::ReadEvent(2),
                Call::StreamVersion,
                Call::PartitionSequence,
                Call::StreamScan,
                Call::PartitionScan,
                Call::ReverseStreamScan,
                Call::StreamScanFrom2,
                Call::PartitionScanFrom2,
            ],
            // #2 = A (acknowledged by the rollover's sync), #3/#4 = the transaction that is stepped through
            Scenario::DeferredRollover => vec![Call::ReadEvent(2), Call::ReadEvent(4), Call::StreamVersion, Call::PartitionSequence, Call::StreamScan, Call::PartitionScan, Call::ReverseStreamScan],
        };
        let deferred = scenario == Scenario::DeferredRollover;
        for &compression in &comps {
            if deferred && !compression && !tier.is_thorough() {
                continue;
            }
            let mk = |steps: Vec<Step>| Case { scenario, n_parks, compression, iter: None, steps };
            // one call, unsplit, at every writer position
            for &c in &calls {
                for at in 0..n_pos {
                    v.push(mk(vec![Step { call: c, split: None, at, resume_at: at }]));
                }
                // one call split at each of its internal points: all (start, resume) pairs
                for s in splits_for(c) {
                    for at in 0..n_pos {
                        for resume_at in at..n_pos {
                            // quick: far-apart (start, resume) pairs only for the split whose two halves read two different
                            // pieces of published state (segment id, then index)
                            if !tier.is_thorough() && resume_at > at + if deferred { 2 } else { 4 } && (deferred || s != "iter:after-segment-id-load") {
                                continue;
                            }
                            v.push(mk(vec![Step { call: c, split: Some(s.to_string()), at, resume_at }]));
                        }
                    }
                }
            }
            // two unsplit calls: all ordered position pairs (monotonicity between the two observations)
            let pair_calls: Vec<Call> = if deferred {
                if tier.is_thorough() { calls.clone() } else { vec![Call::ReadEvent(2), Call::StreamVersion] }
            } else if tier.is_thorough() {
                calls.clone()
            } else {
                vec![Call::ReadEvent(0), Call::StreamVersion, Call::StreamScan, Call::PartitionSequence]
            };
            for &c1 in &pair_calls {
                for &c2 in &pair_calls {
                    if !tier.is_thorough() && c1 != c2 {
                        continue;
                    }
                    for a in 0..n_pos {
                        for b in a..n_pos {
                            if a == b {
                                continue;
                            }
                            v.push(mk(vec![Step { call: c1, split: None, at: a, resume_at: a }, Step { call: c2, split: None, at: b, resume_at: b }]));
                        }
                    }
                }
            }
        }
    }
    v.extend(iter_cases(tier));
    v
}

/// Family B grid.
fn iter_cases(tier: Tier) -> Vec<Case> {
    let mut v = Vec::new();
    let thorough = tier.is_thorough();
    let kinds = [IterKind::Stream, IterKind::Partition, IterKind::StreamReverse];
    let batches: &[usize] = if thorough { &[1, 2, 50] } else { &[1, 50] };
    let pres: Vec<usize> = if thorough { (0..=6).collect() } else { vec![1, 3, 5] };
    for &kind in &kinds {
        for &batch in batches {
            for &mix in &[false, true] {
                if mix && !thorough && batch != 1 {
                    continue;
                }
                for &pre in &pres {
                    let froms: Vec<u64> = if kind == IterKind::StreamReverse { vec![u64::MAX] } else if thorough { vec![0, 1, pre as u64] } else { vec![0, pre as u64] };
                    for &from in &froms {
                        let r0s: Vec<usize> = if thorough { vec![0, 1, 2] } else { vec![0, 1] };
                        for &r0 in &r0s {
                            for m0 in if thorough { vec![1usize, 2, 3, 4] } else { vec![2usize, 4] } {
                                for (r1, m1) in if thorough { vec![(0usize, 0usize), (1, 2), (2, 1)] } else { vec![(0usize, 0usize), (1, 2)] } {
                                    v.push(Case { scenario: Scenario::Rollover, n_parks: 0, compression: true, steps: vec![], iter: Some(IterCase { kind, from, batch, mix, pre, reads: [r0, r1], mids: [m0, m1] }) });
                                }
                            }
                        }
                    }
                }
            }
        }
    }
    v.sort_by_key(|c| serde_json::to_string(c).unwrap());
    v.dedup_by_key(|c| serde_json::to_string(c).unwrap());
    v
}

enum OpenIter {
    S(sierradb::bucket::iter::StreamIter),
    P(sierradb::bucket::iter::PartitionIter),
}

fn run_iter_case(case: &Case, ic: &IterCase, out: &mut WorkerOut) {
    pause::disable_all();
    let cfg = DbCfg::simple(MIN_SEG, case.compression, SyncMode::EveryWrite);
    let mut h = match H::new(cfg, "c15b") {
        Ok(h) => h,
        Err(e) => vcommon::machinery_fail(&format!("open: {e}")),
    };
    let case_json = serde_json::to_value(case).unwrap();
    let part = partition_of(0);
    // ids of the events the scan is about (stream s0, or the whole partition), in position order
    let mut wanted: Vec<u128> = Vec::new();
    let mut n_appends = 0usize;
    let mut append = |h: &mut H, wanted: &mut Vec<u128>| -> bool {
        let stream = if ic.mix && n_appends % 2 == 1 { 1 } else { 0 };
        n_appends += 1;
        let id = event_id(0, h.counter + 1).as_u128();
        if h.append(&TxS::single(0, stream, Size::Block)).is_err() {
            return false;
        }
        if stream == 0 || ic.kind == IterKind::Partition {
            wanted.push(id);
        }
        true
    };
    for _ in 0..ic.pre {
        if !append(&mut h, &mut wanted) {
            out.outcome("setup-problem");
            return;
        }
    }
    let acked_at_open = wanted.len();
    let db = h.db().clone();
    let opened = h.rt.block_on(async {
        match ic.kind {
            IterKind::Stream => db.read_stream(part, StreamId::new("s0").unwrap(), ic.from, IterDirection::Forward).await.map(OpenIter::S).map_err(|e| e.to_string()),
            IterKind::StreamReverse => db.read_stream(part, StreamId::new("s0").unwrap(), ic.from, IterDirection::Reverse).await.map(OpenIter::S).map_err(|e| e.to_string()),
            IterKind::Partition => db.read_partition(part, ic.from, IterDirection::Forward).await.map(OpenIter::P).map_err(|e| e.to_string()),
        }
    });
    let mut it = match opened {
        Ok(it) => it,
        Err(e) => {
            out.violation(&format!("C15/iterator/open-failed/{:?}", ic.kind), &format!("opening the scan failed with a healthy disk: {e}"), case_json);
            return;
        }
    };
    let mut got: Vec<u128> = Vec::new();
    let mut error: Option<String> = None;
    let mut exhausted_reads = 0u32;
    let mut read = |h: &H, it: &mut OpenIter, got: &mut Vec<u128>, n: Option<usize>| {
        let mut k = 0;
        loop {
            if let Some(n) = n {
                if k >= n {
                    break;
                }
            }
            k += 1;
            if k > 200 {
                error = Some("the scan does not terminate".into());
                break;
            }
            let r = h.rt.block_on(async {
                tokio::time::timeout(Duration::from_secs(60), async {
                    match it {
                        OpenIter::S(i) => i.next_batch(ic.batch).await.map_err(|e| e.to_string()),
                        OpenIter::P(i) => i.next_batch(ic.batch).await.map_err(|e| e.to_string()),
                    }
                })
                .await
            });
            match r {
                Err(_) => {
                    error = Some("next_batch did not return within 60 s".into());
                    break;
                }
                Ok(Err(e)) => {
                    error = Some(e);
                    break;
                }
                Ok(Ok(None)) => {
                    exhausted_reads += 1;
                    if n.is_none() {
                        break;
                    }
                }
                Ok(Ok(Some(b))) => {
                    for g in b {
                        got.extend(g.into_iter().filter(|e| ic.kind == IterKind::Partition || e.stream_id.as_ref() as &str == "s0").map(|e| e.event_id.as_u128()));
                    }
                }
            }
        }
    };
    out.transitions += 1;
    for phase in 0..2 {
        read(&h, &mut it, &mut got, Some(ic.reads[phase]));
        out.transitions += ic.reads[phase] as u64;
        for _ in 0..ic.mids[phase] {
            if !append(&mut h, &mut wanted) {
                out.outcome("setup-problem");
                return;
            }
            out.transitions += 1;
        }
    }
    read(&h, &mut it, &mut got, None);
    drop(it);
    let pos = |ids: &[u128]| -> Vec<String> { ids.iter().map(|g| wanted.iter().position(|x| x == g).map(|p| format!("#{p}")).unwrap_or("?".into())).collect() };
    let label = format!("{:?}/mix={}", ic.kind, ic.mix);
    if let Some(e) = error {
        out.violation(&format!("C15/iterator/read-error/{label}"), &format!("next_batch failed with a healthy disk: {e} [{}]", serde_json::to_string(ic).unwrap()), case_json.clone());
    } else {
        // expected: a contiguous run that starts at the start position and covers at least everything
        // acknowledged before the scan was opened
        let ok = if ic.kind == IterKind::StreamReverse {
            let n = got.len();
            n >= acked_at_open && n <= wanted.len() && got.iter().rev().eq(wanted[..n].iter())
        } else {
            let from = (ic.from as usize).min(wanted.len());
            let must = acked_at_open.saturating_sub(from);
            got.len() >= must && from + got.len() <= wanted.len() && got[..] == wanted[from..from + got.len()]
        };
        if !ok {
            let what = if got.len() < acked_at_open.saturating_sub(if ic.kind == IterKind::StreamReverse { 0 } else { ic.from as usize }) { "lost-acked-events" } else { "wrong-sequence" };
            out.violation(
                &format!("C15/iterator/{what}/{label}"),
                &format!(
                    "a scan opened after {acked_at_open} matching events were acknowledged (start {}), read across {} more appends, returned positions {:?} [{}]",
                    if ic.from == u64::MAX { "newest".to_string() } else { ic.from.to_string() },
                    ic.mids[0] + ic.mids[1],
                    pos(&got),
                    serde_json::to_string(ic).unwrap()
                ),
                case_json.clone(),
            );
        }
    }
    // every acknowledged event, whichever of the (up to six) segments holds it, is found by its id
    for (i, id) in wanted.iter().enumerate() {
        let db = h.db().clone();
        let uid = Uuid::from_u128(*id);
        let r = h.rt.block_on(async move { tokio::time::timeout(Duration::from_secs(40), db.read_event(part, uid)).await });
        out.evals += 1;
        let bad = match &r {
            Ok(Ok(Some(e))) if e.event_id == uid => None,
            Ok(Ok(Some(_))) => Some("another event was returned".to_string()),
            Ok(Ok(None)) => Some("not found".to_string()),
            Ok(Err(e)) => Some(format!("error: {e}")),
            Err(_) => Some("did not return within 40 s".to_string()),
        };
        if let Some(b) = bad {
            out.violation(
                &format!("C15/iterator/acked-event-not-found-by-id/{label}"),
                &format!("after {} acknowledged appends (a new segment every second one) read_event of event #{i}: {b} [{}]", wanted.len(), serde_json::to_string(ic).unwrap()),
                case_json.clone(),
            );
            break;
        }
    }
    out.state(vcommon::fnv(format!("{:?}{}{}", ic, got.len(), exhausted_reads).as_bytes()));
    out.outcome(format!("iter:{:?}:{}of{}", ic.kind, got.len(), wanted.len()));
    if out.cases_done % 80 == 0 {
        out.sample(case_json);
    }
}

/// What a call observed, reduced to what the oracle needs.
#[derive(Debug, Clone, PartialEq)]
pub enum Obs {
    Event(Option<u128>),
    Version(Option<u64>),
    Ids(Vec<u128>),
    /// reverse scan: the groups as returned (a group is one transaction's events, possibly only some of them, and
    /// a transaction may come back in more than one group: C03 allows a group to repeat its own events)
    RevGroups(Vec<Vec<u128>>),
    Error(String),
}

fn do_call(rt: &tokio::runtime::Runtime, db: &Database, c: Call, ids: &[Uuid], first_stepped: u64) -> Obs {
    let part = partition_of(0);
    let r = rt.block_on(async {
        tokio::time::timeout(Duration::from_secs(60), async {
            match c {
                Call::ReadEvent(i) => match db.read_event(part, ids[i as usize]).await {
                    Ok(e) => Obs::Event(e.map(|e| e.event_id.as_u128())),
                    Err(e) => Obs::Error(e.to_string()),
                },
                Call::StreamVersion => match db.get_stream_version(part, &StreamId::new("s0").unwrap()).await {
                    Ok(v) => Obs::Version(v.map(|x| x.version)),
                    Err(e) => Obs::Error(e.to_string()),
                },
                Call::PartitionSequence => match db.get_partition_sequence(part).await {
                    Ok(v) => Obs::Version(v.map(|x| x.sequence)),
                    Err(e) => Obs::Error(e.to_string()),
                },
                Call::StreamScan | Call::ReverseStreamScan | Call::PartitionScan | Call::StreamScanFrom2 | Call::PartitionScanFrom2 => {
                    let mut out = Vec::new();
                    let mut groups: Vec<Vec<u128>> = Vec::new();
                    let res: Result<(), String> = async {
                        if matches!(c, Call::PartitionScan | Call::PartitionScanFrom2) {
                            let from = if matches!(c, Call::PartitionScanFrom2) { first_stepped } else { 0 };
                            let mut it = db.read_partition(part, from, IterDirection::Forward).await.map_err(|e| e.to_string())?;
                            while let Some(b) = it.next_batch(2).await.map_err(|e| e.to_string())? {
                                for g in b {
                                    out.extend(g.into_iter().map(|e| e.event_id.as_u128()));
                                }
                            }
                        } else {
                            let (from, dir) = match c {
                                Call::StreamScan => (0, IterDirection::Forward),
                                Call::StreamScanFrom2 => (first_stepped, IterDirection::Forward),
                                _ => (u64::MAX, IterDirection::Reverse),
                            };
                            let mut it = db.read_stream(part, StreamId::new("s0").unwrap(), from, dir).await.map_err(|e| e.to_string())?;
                            while let Some(b) = it.next_batch(2).await.map_err(|e| e.to_string())? {
                                for g in b {
                                    let ids: Vec<u128> = g.into_iter().map(|e| e.event_id.as_u128()).collect();
                                    out.extend(ids.iter().copied());
                                    groups.push(ids);
                                }
                            }
                        }
                        Ok(())
                    }
                    .await;
                    match res {
                        Ok(()) if matches!(c, Call::ReverseStreamScan) => Obs::RevGroups(groups),
                        Ok(()) => Obs::Ids(out),
                        Err(e) => Obs::Error(e),
                    }
                }
            }
        })
        .await
    });
    r.unwrap_or(Obs::Error("read call did not return within 60 s".into()))
}

/// The append that is stepped through, one pause point at a time.
struct Writer {
    /// 0 = not issued, i = parked at the i-th pause point it reached, trail.len() + 1 = its call has returned
    pos: usize,
    parked_at: Option<&'static str>,
    trail: Vec<&'static str>,
    done: bool,
    appender: Option<std::thread::JoinHandle<bool>>,
    returned: Arc<AtomicBool>,
    db: Database,
    tx: Option<sierradb::database::Transaction>,
}

fn writer_hits() -> Vec<u64> {
    WRITER_LABELS.iter().map(|l| pause::hits(l)).collect()
}

impl Writer {
    fn new(db: Database, tx: sierradb::database::Transaction) -> Writer {
        Writer { pos: 0, parked_at: None, trail: vec![], done: false, appender: None, returned: Arc::new(AtomicBool::new(false)), db, tx: Some(tx) }
    }

    /// One writer step: issue the append, or release the pause point it is parked at; then wait until it parks at
    /// its next pause point (whichever that is) or its call returns.
    fn step(&mut self) -> Result<(), String> {
        if self.done {
            return Ok(());
        }
        let before = writer_hits();
        match self.parked_at.take() {
            Some(l) => pause::release(l),
            None => {
                let db = self.db.clone();
                let tx = self.tx.take().unwrap();
                let returned = self.returned.clone();
                self.appender = Some(std::thread::spawn(move || {
                    let rt = new_rt();
                    let ok = matches!(rt.block_on(async move { tokio::time::timeout(Duration::from_secs(30), db.append_events(tx)).await }), Ok(Ok(_)));
                    returned.store(true, Ordering::SeqCst);
                    ok
                }));
            }
        }
        let deadline = std::time::Instant::now() + Duration::from_secs(60);
        loop {
            let now = writer_hits();
            if let Some(i) = (0..now.len()).find(|&i| now[i] > before[i]) {
                let l = WRITER_LABELS[i];
                if !pause::wait_parked(l, Duration::from_secs(30)) {
                    return Err(format!("the writer passed {l} without parking there"));
                }
                self.parked_at = Some(l);
                self.trail.push(l);
                self.pos += 1;
                return Ok(());
            }
            if self.returned.load(Ordering::SeqCst) {
                let ok = self.appender.take().unwrap().join().unwrap_or(false);
                self.done = true;
                self.pos += 1;
                return if ok { Ok(()) } else { Err("the stepped append failed".into()) };
            }
            if std::time::Instant::now() > deadline {
                return Err(format!("after position {} ({:?}) the writer neither reached a pause point nor returned within 60 s", self.pos, self.trail.last()));
            }
            std::thread::sleep(Duration::from_micros(30));
        }
    }

    fn advance_to(&mut self, target: usize) -> Result<(), String> {
        while self.pos < target && !self.done {
            self.step()?;
        }
        Ok(())
    }

    fn finish(&mut self) -> Result<(), String> {
        while !self.done {
            self.step()?;
        }
        Ok(())
    }
}

/// Prepared scenario: database, ids of all events of stream s0 in order, per-event acknowledgement flags, and the
/// writer for the append that is stepped through.
struct Prepared {
    h: H,
    ids: Vec<Uuid>,
    /// acked[i]: the append call that wrote event i has returned
    acked: Vec<Arc<AtomicBool>>,
    w: Writer,
    pending: Vec<std::thread::JoinHandle<bool>>,
}

fn prepare(scenario: Scenario, compression: bool) -> Result<Prepared, String> {
    pause::disable_all();
    let cfg = DbCfg::simple(MIN_SEG, compression, scenario.sync());
    let mut h = H::new(cfg, "c15").map_err(|e| format!("open: {e}"))?;
    let yes = || Arc::new(AtomicBool::new(true));
    let ev = |size| EvS { stream: 0, exp: ExpS::Any, size, bad: Bad::No };
    let mut ids = Vec::new();
    let mut acked = Vec::new();
    let mut pending = Vec::new();
    match scenario {
        Scenario::Rollover => {
            // two acknowledged appends that fill the live segment
            for _ in 0..2 {
                ids.push(event_id(0, h.counter + 1));
                acked.push(yes());
                h.append(&TxS::single(0, 0, Size::Block)).map_err(|p| format!("setup append: {}", p.detail))?;
            }
            ids.push(event_id(0, h.counter + 1));
        }
        Scenario::DeferredRollover => {
            // an acknowledged two-event transaction (its second event triggers the group sync)
            ids.push(event_id(0, h.counter + 1));
            ids.push(event_id(0, h.counter + 2));
            acked.push(yes());
            acked.push(yes());
            h.append(&TxS { pk: 0, events: vec![ev(Size::Block), ev(Size::Tiny)], exp_seq: ExpS::Any, conf: 0 }).map_err(|p| format!("setup append: {}", p.detail))?;
            // A: written, not synced; its call stays pending until the next sync
            ids.push(event_id(0, h.counter + 1));
            let (_m, atx) = h.build(&TxS::single(0, 0, Size::Block));
            let atx = atx?;
            let flag = Arc::new(AtomicBool::new(false));
            acked.push(flag.clone());
            let written_before = pause::hits("append:before-reply");
            let db = h.db().clone();
            pending.push(std::thread::spawn(move || {
                let rt = new_rt();
                let ok = matches!(rt.block_on(async move { tokio::time::timeout(Duration::from_secs(60), db.append_events(atx)).await }), Ok(Ok(_)));
                flag.store(ok, Ordering::SeqCst);
                ok
            }));
            let deadline = std::time::Instant::now() + Duration::from_secs(40);
            while pause::hits("append:before-reply") == written_before {
                if std::time::Instant::now() > deadline {
                    return Err("append A was not written within 10 s".into());
                }
                std::thread::sleep(Duration::from_micros(50));
            }
            // let the writer thread finish handling A (reply sent, back at its queue)
            std::thread::sleep(Duration::from_millis(2));
            if acked[2].load(Ordering::SeqCst) {
                return Err("append A was acknowledged before any sync was due".into());
            }
            ids.push(event_id(0, h.counter + 1));
            ids.push(event_id(0, h.counter + 2));
        }
    }
    let stepped = match scenario {
        Scenario::Rollover => TxS::single(0, 0, Size::Block),
        Scenario::DeferredRollover => TxS { pk: 0, events: vec![ev(Size::Block), ev(Size::Tiny)], exp_seq: ExpS::Any, conf: 0 },
    };
    let (_m, rtx) = h.build(&stepped);
    let w = Writer::new(h.db().clone(), rtx?);
    while acked.len() < ids.len() {
        acked.push(w.returned.clone());
    }
    for l in WRITER_LABELS {
        pause::enable(l);
    }
    Ok(Prepared { h, ids, acked, w, pending })
}

/// Dry run: the sequence of pause points the stepped append of a scenario reaches.
pub fn discover_trail(scenario: Scenario) -> Vec<&'static str> {
    let mut p = prepare(scenario, true).unwrap_or_else(|e| vcommon::machinery_fail(&format!("C15 dry run ({scenario:?}): {e}")));
    let r = p.w.finish();
    pause::disable_all();
    if let Err(e) = r {
        vcommon::machinery_fail(&format!("C15 dry run ({scenario:?}): {e}"));
    }
    for t in p.pending.drain(..) {
        let _ = t.join();
    }
    p.w.trail.clone()
}

pub fn run_case(case: &Case, out: &mut WorkerOut) {
    if let Some(ic) = &case.iter {
        return run_iter_case(case, ic, out);
    }
    let sc = case.scenario;
    let Prepared { h, ids, acked, mut w, pending } = match prepare(sc, case.compression) {
        Ok(p) => p,
        Err(e) if e.contains("did not return within") || e.contains("was not written within") => {
            // a starved machine (other jobs on all cores): the schedule could not be set up; counted, not judged
            pause::disable_all();
            eprintln!("note: C15 case skipped, setup timed out: {e}");
            out.count("cases_skipped_because_setup_timed_out", 1);
            out.outcome("setup-timeout");
            return;
        }
        Err(e) => vcommon::machinery_fail(&format!("C15 setup ({sc:?}): {e}")),
    };
    let n_ev = ids.len();

    // the reader lives on its own thread so that a call parked at an internal pause point does not block the harness
    let (cmd_tx, cmd_rx) = mpsc::channel::<Call>();
    let (res_tx, res_rx) = mpsc::channel::<Obs>();
    let rdb = h.db().clone();
    let rids = ids.clone();
    let first_stepped = sc.first_stepped() as u64;
    let reader = std::thread::spawn(move || {
        let rt = new_rt();
        while let Ok(c) = cmd_rx.recv() {
            let o = do_call(&rt, &rdb, c, &rids, first_stepped);
            if res_tx.send(o).is_err() {
                break;
            }
        }
    });

    let case_json = serde_json::to_value(case).unwrap();
    // (step, observation, writer position at start, at end, events acknowledged when the call started)
    let mut observations: Vec<(Step, Obs, usize, usize, Vec<bool>)> = Vec::new();
    let mut fail: Option<(String, String)> = None;
    let mut blocked_steps = 0u64;
    'steps: for st in &case.steps {
        if let Err(e) = w.advance_to(st.at) {
            fail = Some(("writer-stuck".into(), e));
            break;
        }
        out.transitions += 1;
        let start_pos = w.pos;
        let acked_now: Vec<bool> = acked.iter().map(|a| a.load(Ordering::SeqCst)).collect();
        let label = st.split.as_deref().map(static_label);
        if let Some(l) = label {
            pause::enable(l);
        }
        cmd_tx.send(st.call).unwrap();
        let mut obs = None;
        if label.is_none() {
            // a reader that blocks on the live-index lock while the writer is parked inside the locked part of the
            // rollover is not enabled: move the writer on, one position at a time, until the call returns
            loop {
                match res_rx.recv_timeout(Duration::from_millis(if w.pos == 0 || w.done { 60_000 } else { 150 })) {
                    Ok(o) => {
                        obs = Some(o);
                        break;
                    }
                    Err(_) => {
                        if w.done || w.pos == 0 {
                            fail = Some(("reader-stuck".into(), format!("{:?} did not return", st.call)));
                            break 'steps;
                        }
                        blocked_steps += 1;
                        if let Err(e) = w.step() {
                            fail = Some(("writer-stuck".into(), e));
                            break 'steps;
                        }
                    }
                }
            }
        }
        if let Some(l) = label {
            // wait until the call parks at the split point or finishes without reaching it
            let deadline = std::time::Instant::now() + Duration::from_secs(60);
            let mut blocked_since = std::time::Instant::now();
            loop {
                if let Ok(o) = res_rx.try_recv() {
                    obs = Some(o);
                    break;
                }
                if pause::is_parked(l) {
                    break;
                }
                if std::time::Instant::now() > deadline {
                    fail = Some(("reader-stuck".into(), format!("{:?} neither returned nor reached {l}", st.call)));
                    break 'steps;
                }
                if blocked_since.elapsed() > Duration::from_millis(150) && w.pos > 0 && !w.done {
                    // blocked on the live-index lock held by the parked writer: not enabled here, move the writer on
                    blocked_steps += 1;
                    if let Err(e) = w.step() {
                        fail = Some(("writer-stuck".into(), e));
                        break 'steps;
                    }
                    blocked_since = std::time::Instant::now();
                }
                std::thread::sleep(Duration::from_micros(50));
            }
            if obs.is_none() {
                // parked: let the writer move, then resume the call
                if let Err(e) = w.advance_to(st.resume_at.max(w.pos)) {
                    fail = Some(("writer-stuck".into(), e));
                    pause::disable(l);
                    break;
                }
                out.transitions += 1;
            }
            pause::disable(l);
        }
        #[allow(clippy::never_loop)]
        let o = match obs {
            Some(o) => o,
            None => loop {
                match res_rx.recv_timeout(Duration::from_millis(if w.done { 60_000 } else { 150 })) {
                    Ok(o) => break o,
                    Err(_) => {
                        if w.done {
                            fail = Some(("reader-stuck".into(), format!("{:?} did not return", st.call)));
                            break 'steps;
                        }
                        blocked_steps += 1;
                        if let Err(e) = w.step() {
                            fail = Some(("writer-stuck".into(), e));
                            break 'steps;
                        }
                    }
                }
            },
        };
        observations.push((st.clone(), o, start_pos, w.pos, acked_now));
    }
    // let the writer finish
    let finish = w.finish();
    pause::disable_all();
    drop(cmd_tx);
    let _ = reader.join();
    let mut pending_ok = true;
    for t in pending {
        pending_ok &= t.join().unwrap_or(false);
    }
    if fail.is_none() {
        if let Err(e) = finish {
            fail = Some(("writer-stuck".into(), e));
        } else if !pending_ok {
            fail = Some(("pending-append-failed".into(), "the append that was waiting for the group sync failed or never returned".into()));
        } else if w.trail.len() != case.n_parks {
            // the enumeration was built for another sequence of writer positions: the harness is not deterministic
            vcommon::machinery_fail(&format!("C15: the dry run saw {} writer pause points, this execution {} ({:?})", case.n_parks, w.trail.len(), w.trail));
        }
    }

    // oracle
    let idv: Vec<u128> = ids.iter().map(|i| i.as_u128()).collect();
    let mut problems: Vec<(String, String)> = fail.into_iter().collect();
    let trail = w.trail.clone();
    let wname = |p: usize| if p == 0 { "before-rollover".to_string() } else if p > trail.len() { "after-ack".to_string() } else { trail[p - 1].to_string() };
    let sck = match sc {
        Scenario::Rollover => String::new(),
        Scenario::DeferredRollover => "deferred-sync/".to_string(),
    };
    for (st, o, start_pos, end_pos, acked_at_start) in &observations {
        // events are acknowledged in order: the acknowledged ones form a prefix
        let need = acked_at_start.iter().take_while(|a| **a).count();
        let window = if start_pos == end_pos { format!("at={}", wname(*start_pos)) } else { format!("split={}/resumed={}", st.split.clone().unwrap_or_default(), wname(*end_pos)) };
        let posn = |got: &[u128]| -> Vec<String> { got.iter().map(|g| idv.iter().position(|x| x == g).map(|p| format!("#{p}")).unwrap_or("?".into())).collect() };
        match (st.call, o) {
            (_, Obs::Error(e)) => problems.push((format!("{sck}read-error/{}/{window}", call_class(st.call)), format!("{:?} failed with a healthy disk: {e}", st.call))),
            (Call::ReadEvent(i), Obs::Event(got)) => {
                let i = i as usize;
                if i < need && *got != Some(idv[i]) {
                    problems.push((format!("{sck}acked-event-not-visible/{window}"), format!("read_event of acknowledged event #{i} returned {got:?}")));
                }
                if let Some(g) = got {
                    if *g != idv[i] {
                        problems.push((format!("{sck}wrong-event/{window}"), format!("read_event of event #{i} returned another event")));
                    }
                }
            }
            (Call::StreamVersion | Call::PartitionSequence, Obs::Version(v)) => {
                let ok = match v {
                    None => need == 0,
                    Some(x) => (*x as usize) + 1 >= need && (*x as usize) < n_ev,
                };
                if !ok {
                    problems.push((format!("{sck}version-behind-acked/{}/{window}", call_class(st.call)), format!("{:?} returned {v:?} although version/sequence {} was acknowledged before the call started", st.call, need.saturating_sub(1))));
                }
            }
            (Call::StreamScanFrom2 | Call::PartitionScanFrom2, Obs::Ids(got)) => {
                let f = sc.first_stepped();
                let ok = sc.tx_boundaries().iter().any(|&k| k >= need.max(f) && *got == idv[f..k]);
                if !ok {
                    problems.push((format!("{sck}scan-wrong/{}/{window}", call_class(st.call)), format!("{:?} (from position {f}) returned events {:?}; events #0..#{} were acknowledged before it started", st.call, posn(got), need as i64 - 1)));
                }
            }
            (Call::ReverseStreamScan, Obs::RevGroups(groups)) => {
                // which transaction does each group belong to (transactions = the intervals between tx boundaries)?
                let bounds = sc.tx_boundaries();
                let tx_of = |id: &u128| idv.iter().position(|x| x == id).and_then(|p| bounds.windows(2).position(|w| w[0] <= p && p < w[1]));
                let mut problem: Option<String> = None;
                let mut last_tx: Option<usize> = None;
                let mut seen: std::collections::BTreeSet<usize> = Default::default();
                for g in groups {
                    let txs: std::collections::BTreeSet<Option<usize>> = g.iter().map(tx_of).collect();
                    if g.is_empty() || txs.len() != 1 || txs.contains(&None) {
                        problem = Some(format!("a group is empty, mixes transactions or holds a foreign event: {:?}", posn(g)));
                        break;
                    }
                    let t = txs.into_iter().next().unwrap().unwrap();
                    if matches!(last_tx, Some(l) if t > l) {
                        problem = Some("groups are not in decreasing order".into());
                        break;
                    }
                    last_tx = Some(t);
                    seen.extend(g.iter().filter_map(|id| idv.iter().position(|x| x == id)));
                }
                if problem.is_none() {
                    let k = seen.len();
                    let is_prefix = seen.iter().copied().eq(0..k);
                    if !(is_prefix && k >= need && bounds.contains(&k)) {
                        problem = Some(format!("the events returned are #{seen:?}; events #0..#{} were acknowledged before it started", need as i64 - 1));
                    }
                }
                if let Some(pr) = problem {
                    let flat: Vec<u128> = groups.iter().flatten().copied().collect();
                    problems.push((format!("{sck}scan-wrong/{}/{window}", call_class(st.call)), format!("ReverseStreamScan returned {:?}: {pr}", posn(&flat))));
                }
            }
            (Call::StreamScan | Call::PartitionScan | Call::ReverseStreamScan, Obs::Ids(got)) => {
                let ok = sc.tx_boundaries().iter().any(|&k| {
                    let mut expect: Vec<u128> = idv[..k].to_vec();
                    if matches!(st.call, Call::ReverseStreamScan) {
                        expect.reverse();
                    }
                    k >= need && *got == expect
                });
                if !ok {
                    problems.push((format!("{sck}scan-wrong/{}/{window}", call_class(st.call)), format!("{:?} returned events {:?}; events #0..#{} were acknowledged before it started", st.call, posn(got), need as i64 - 1)));
                }
            }
            _ => {}
        }
    }
    // monotonicity between consecutive observations of the same kind
    for wds in observations.windows(2) {
        let (s1, o1, ..) = &wds[0];
        let (s2, o2, ..) = &wds[1];
        if s1.call != s2.call {
            continue;
        }
        let back = match (o1, o2) {
            (Obs::Event(Some(_)), Obs::Event(None)) => true,
            (Obs::Version(a), Obs::Version(b)) => b < a,
            (Obs::Ids(a), Obs::Ids(b)) => a.iter().any(|x| !b.contains(x)),
            (Obs::RevGroups(a), Obs::RevGroups(b)) => a.iter().flatten().any(|x| !b.iter().flatten().any(|y| y == x)),
            _ => false,
        };
        if back {
            problems.push((format!("{sck}went-backwards/{:?}", s1.call), format!("{:?} observed {o1:?} and later {o2:?}", s1.call)));
        }
    }
    out.count("reader_steps_blocked_by_lock", blocked_steps);
    out.state(vcommon::fnv(format!("{sc:?}{:?}", observations.iter().map(|(s, o, a, b, k)| (s.call, s.split.clone(), a, b, k.iter().filter(|x| **x).count(), format!("{o:?}").len())).collect::<Vec<_>>()).as_bytes()));
    out.outcome(format!("{sc:?}{:?}", observations.iter().map(|(s, o, ..)| format!("{:?}={}", s.call, match o { Obs::Error(_) => "err".to_string(), Obs::Event(e) => format!("{}", e.is_some()), Obs::Version(v) => format!("{v:?}"), Obs::Ids(i) => format!("{}ids", i.len()), Obs::RevGroups(g) => format!("{}groups", g.len()) })).collect::<Vec<_>>()));
    for (k, d) in problems {
        out.violation(&format!("C15/{k}"), &format!("{d} [{sc:?}, steps {}]", serde_json::to_string(&case.steps).unwrap()), case_json.clone());
    }
    if out.cases_done % 60 == 0 {
        out.sample(case_json);
    }
    drop(h);
}

const TRAILS_ENV: &str = "VERIF_C15_TRAILS";

pub fn run(args: Args) {
    let tier = args.tier;
    // the writer's pause-point sequences: discovered once by the parent (dry run), handed to the workers
    let trails: Vec<(Scenario, Vec<String>)> = match std::env::var(TRAILS_ENV) {
        Ok(s) => serde_json::from_str(&s).unwrap_or_else(|e| vcommon::machinery_fail(&format!("{TRAILS_ENV}: {e}"))),
        Err(_) if args.replay.is_some() => vec![],
        Err(_) => {
            let t: Vec<(Scenario, Vec<String>)> = [Scenario::Rollover, Scenario::DeferredRollover].into_iter().map(|sc| (sc, discover_trail(sc).into_iter().map(String::from).collect())).collect();
            // SAFETY: single-threaded at this point (the dry-run threads have been joined)
            unsafe { std::env::set_var(TRAILS_ENV, serde_json::to_string(&t).unwrap()) };
            t
        }
    };
    let parks: Vec<(Scenario, usize)> = trails.iter().map(|(s, t)| (*s, t.len())).collect();
    let plan = Plan { property: "C15", level: "model_checking", cases: cases(tier, &parks), cap: if tier.is_thorough() { Duration::from_secs(2400) } else { Duration::from_secs(55) } };
    drive(args, plan, run_case, move |m, total| {
        (
            json!({
                "states": m.states.len(),
                "transitions": m.transitions,
                "traces_validated_against_impl": m.cases_done,
                "samples": m.samples,
                "exhaustive": !m.capped && m.counters.get("cases_skipped_because_setup_timed_out").copied().unwrap_or(0) == 0,
                "cases_skipped_because_setup_timed_out": m.counters.get("cases_skipped_because_setup_timed_out").copied().unwrap_or(0),
                "schedules_enumerated": total,
                "schedules_executed": m.cases_done,
                "distinct_observed_outcomes": m.outcomes.len(),
                "writer_positions_discovered_by_dry_run": trails.iter().map(|(s, t)| json!({"scenario": format!("{s:?}"), "pause_points_in_order": t})).collect::<Vec<_>>(),
                "reader_split_points": ["read_transaction:after-index-lookup", "get_stream_version:after-live-miss", "get_partition_sequence:after-live-miss", "iter:after-segment-id-load", "iter:before-closed-segments", "segiter:between-cache-and-pool"],
                "scenarios": {
                    "Rollover": "sync after every write; two acknowledged appends fill the segment; the stepped append rolls it over",
                    "DeferredRollover": "sync every 2 events; an acknowledged two-event transaction, then append A written but unsynced (call pending), then the stepped two-event transaction B that rolls the segment over: A is acknowledged by the rollover's sync while the writer is inside the rollover, B by its own sync",
                },
                "family_b": "long-lived iterators (stream forward / reverse, partition) opened after 0..6 acknowledged appends, read in up to two instalments with 1..4 and 0..2 further acknowledged appends (each second one seals a segment) in between, then drained; the scan must return a contiguous run from its start position that covers everything acknowledged before it was opened",
                "rule": "schedule = reader program (1 call unsplit / 1 call split at an internal pause point / 2 calls) x writer positions of each (half-)step, non-decreasing; all of them; every schedule is executed on a real database with the writer thread parked at the stated pause points; an event counts as acknowledged for a call iff the append call that wrote it had returned when the call started",
            }),
            vec![
                "seam granularity: writer and reader are stopped at the pause points of hook H2; OS-level interleavings inside a step (rayon broadcast, tokio RwLock hand-off) are not enumerated".into(),
                "one writer thread, one bucket; family A stops the writer inside the rollover of one append, family B interleaves iterator steps with whole appends across up to three rollovers".into(),
            ],
        )
    })
}
