//! dbx — history / crash-image / seam-schedule enumeration on the real sierradb `Database`.
mod c01;
mod c02;
mod c03;
mod c04;
mod c05;
mod c06;
mod c15;
mod c16;
mod c19;
mod c20;
mod harness;
mod pure;

use std::time::Duration;

use serde::Serialize;
use serde::de::DeserializeOwned;
use serde_json::{Value, json};
use vcommon::workers::{Merged, WorkerOut, parent_run, worker_loop, worker_spec};
use vcommon::{Args, Ctx};

pub struct Plan<C> {
    pub property: &'static str,
    pub level: &'static str,
    pub cases: Vec<C>,
    pub cap: Duration,
}

/// Generic driver: parent / worker / replay for a property whose cases are independent.
pub fn drive<C: Serialize + DeserializeOwned + Sync + Clone>(
    args: Args,
    plan: Plan<C>,
    run: fn(&C, &mut WorkerOut),
    finish: impl FnOnce(&Merged, usize) -> (Value, Vec<String>),
) -> ! {
    let order = vcommon::seeded_order(plan.cases.len(), vcommon::seed_from_env());
    if let Some(spec) = worker_spec(&args.extra) {
        let cases = &plan.cases;
        worker_loop(&spec, &order, |idx, out| {
            run(&cases[idx], out);
            if harness::opens() > 400 {
                out.retire = true;
            }
        });
    }
    let mut ctx = Ctx::new(plan.property, args.tier, plan.level);
    if let Some(rp) = &args.replay {
        ctx.replay_mode = true;
        let mut v = vcommon::load_replay(rp);
        if v.get("died").is_some() {
            v = v["case"].clone();
        }
        let case: C = serde_json::from_value(v.clone()).unwrap_or_else(|e| vcommon::machinery_fail(&format!("replay case does not parse: {e}")));
        let mut out = WorkerOut { collected: Some(vec![]), ..Default::default() };
        run(&case, &mut out);
        let got = out.collected.take().unwrap();
        if got.is_empty() {
            println!("replay: the case agrees with the oracle");
        }
        for (k, d, c) in got {
            println!("replay: {d}");
            ctx.violation(&k, &d, c);
        }
        ctx.finish(json!({"states": 1, "transitions": 1, "traces_validated_against_impl": 1, "evaluations": 1, "distinct_nontrivial": 2, "rule": "replay", "samples": [v]}), vec![]);
    }
    let wargs = vec![plan.property.to_string(), args.tier.as_str().to_string()];
    let cases = &plan.cases;
    let order_ref = &order;
    let merged = parent_run(&ctx, cases.len(), &wargs, plan.cap, &format!("{}/process-died", plan.property), |pos| {
        serde_json::to_value(&cases[order_ref[pos]]).unwrap_or(Value::Null)
    });
    if merged.capped {
        ctx.note(format!("wall cap {:?} hit: {} of {} cases executed", plan.cap, merged.cases_done, cases.len()));
    }
    let (cov, assumptions) = finish(&merged, cases.len());
    ctx.finish(cov, assumptions)
}

fn main() {
    vcommon::install_quiet_panic_hook();
    let args = vcommon::parse_args();
    match args.property.as_str() {
        "C01" => c01::run(args),
        "C02" => c02::run(args),
        "C03" => c03::run(args),
        "C19" => c19::run(args),
        "C20" => c20::run(args),
        "C05" => c05::run(args),
        "C04" => c04::run(args),
        "C06" => c06::run(args),
        "C16" => c16::run(args),
        "C15" => c15::run(args),
        "C23" => pure::c23(args),
        "C25" => pure::c25(args),
        p => vcommon::machinery_fail(&format!("dbx does not serve property {p}")),
    }
}
