//! C04 — multi-event transactions are all-or-nothing for readers.
//!
//! Two exhaustive sub-spaces (the history sub-space is carried by C01/C02/C03, whose oracles compare
//! every `read_transaction` / scan group with the model transaction):
//!
//! * crash points: every byte cut strictly inside a multi-event transaction (C05's image engine with
//!   the atomicity oracle), and
//! * reader/writer schedules at seam granularity: the writer thread is stopped at every pause point
//!   of an append (before the write, after the write, before/after the fsync, before the reply,
//!   on the error path before and after the truncation) and at every stop every read API is run for
//!   every event id, stream and partition.  Each result must be what the model says either before or
//!   after the in-flight transaction, never part of it.

use std::time::Duration;

use serde::{Deserialize, Serialize};
use serde_json::json;
use sierradb::verif as pause;
use uuid::Uuid;
use vcommon::workers::WorkerOut;
use vcommon::{Args, Tier};

use crate::c05;
use crate::harness::*;
use crate::{Plan, drive};

#[derive(Serialize, Deserialize, Clone, Debug)]
pub enum Case {
    Cut(c05::Case),
    Seam { compression: bool, sync: SyncMode, history: Vec<TxS>, inflight: TxS },
}

// the rollover's own pause points are C15's subject (two of them lie inside the live-index write lock, where readers block)
const LABELS: [&str; 7] = ["append:before-write", "append:after-write", "append:before-reply", "seglog:before-fsync", "sync:after-fsync", "rollover:after-sync", "rollover:end"];

fn ev(stream: u8, size: Size, bad: Bad) -> EvS {
    EvS { stream, exp: ExpS::Any, size, bad }
}

fn inflight_alphabet() -> Vec<TxS> {
    vec![
        TxS::multi(0, &[0, 1], Size::Tiny),
        TxS { pk: 0, events: vec![ev(0, Size::Tiny, Bad::No), ev(1, Size::Tiny, Bad::Timestamp)], exp_seq: ExpS::Any, conf: 0 },
        TxS::multi(0, &[0, 1, 0], Size::Tiny),
        TxS { pk: 0, events: vec![ev(0, Size::Tiny, Bad::No), ev(0, Size::Tiny, Bad::No), ev(1, Size::Tiny, Bad::LongName)], exp_seq: ExpS::Any, conf: 0 },
        TxS { pk: 0, events: vec![ev(0, Size::Block, Bad::No), ev(1, Size::Tiny, Bad::Timestamp)], exp_seq: ExpS::Any, conf: 0 },
        TxS::multi(0, &[0, 1], Size::Block),
    ]
}

fn history_alphabet() -> Vec<TxS> {
    vec![TxS::single(0, 0, Size::Tiny), TxS::multi(0, &[0, 1], Size::Tiny), TxS::single(0, 0, Size::Block)]
}

pub fn cases(tier: Tier) -> Vec<Case> {
    let mut v: Vec<Case> = Vec::new();
    // seam schedules
    let mut hists: Vec<Vec<TxS>> = vec![vec![]];
    let depth = if tier.is_thorough() { 3 } else { 2 };
    let mut level: Vec<Vec<TxS>> = vec![vec![]];
    for _ in 0..depth {
        let mut next = Vec::new();
        for h in &level {
            for a in history_alphabet() {
                let mut n = h.clone();
                n.push(a);
                next.push(n);
            }
        }
        hists.extend(next.iter().cloned());
        level = next;
    }
    let syncs: Vec<SyncMode> = if tier.is_thorough() { vec![SyncMode::Timer(4, 4), SyncMode::EveryWrite, SyncMode::Custom(4, 4, 2, usize::MAX)] } else { vec![SyncMode::Timer(4, 4), SyncMode::EveryWrite] };
    for compression in if tier.is_thorough() { vec![true, false] } else { vec![true] } {
        for sync in &syncs {
            for h in &hists {
                for t in inflight_alphabet() {
                    v.push(Case::Seam { compression, sync: *sync, history: h.clone(), inflight: t });
                }
            }
        }
    }
    // crash cuts inside multi-event transactions
    for c in c05::cases(tier, true) {
        v.push(Case::Cut(c));
    }
    v
}

fn lookup_inflight_ids(h: &H, ids: &[Uuid], expect_visible: bool, evals: &mut u64) -> Vec<Problem> {
    let mut out = Vec::new();
    for id in ids {
        *evals += 1;
        let db = h.db().clone();
        let uid = *id;
        let part = partition_of(0);
        match h.rt.block_on(async move { tokio::time::timeout(Duration::from_secs(40), db.read_event(part, uid)).await }) {
            Ok(Ok(None)) => {
                if expect_visible {
                    out.push(problem("committed-event-missing", format!("event {uid} of the committed transaction is not found")));
                }
            }
            Ok(Ok(Some(rec))) => {
                if !expect_visible {
                    if rec.event_id == uid {
                        out.push(problem("uncommitted-event-visible", format!("read_event returns event {uid} of a transaction that is not (yet) committed")));
                    } else {
                        out.push(problem("lookup-returns-other-event", format!("read_event({uid}) returned event {}", rec.event_id)));
                    }
                }
            }
            Ok(Err(e)) => out.push(problem("read_event-error", format!("read_event({uid}) failed while the writer was paused: {e}"))),
            Err(_) => out.push(problem("read_event-hang", "read_event timed out")),
        }
    }
    out
}

/// Atomicity oracle: every event / group any read API returns right now is a whole transaction of `after`
/// (restricted to the stream filter), and nothing of a failing in-flight transaction is returned.
fn atomicity_problems(h: &H, after: &vcommon::model::Model, inflight_ids: &[Uuid], will_fail: bool, evals: &mut u64) -> Vec<Problem> {
    use sierradb::IterDirection;
    use sierradb::bucket::segment::EventRecord;
    let mut out = Vec::new();
    let db = h.db().clone();
    let judge_group = |recs: &[EventRecord], filter: Option<&str>, what: &str, out: &mut Vec<Problem>| {
        if recs.is_empty() {
            return;
        }
        let mut tx = None;
        for r in recs {
            if will_fail && inflight_ids.contains(&r.event_id) {
                out.push(problem("failed-transaction-visible", format!("{what} returned event {} of the transaction that fails", r.event_id)));
                return;
            }
            match after.find_event(r.event_id.as_u128()) {
                None => {
                    out.push(problem("unknown-event-returned", format!("{what} returned event {} (seq {}) which no committed or in-flight transaction holds", r.event_id, r.partition_sequence)));
                    return;
                }
                Some(m) => {
                    if let Some(d) = diff_event(r, m) {
                        out.push(problem("event-content-differs", format!("{what}: {d}")));
                        return;
                    }
                    if tx.is_some() && tx != Some(m.tx_index) {
                        out.push(problem("group-mixes-transactions", format!("{what} returned one group with events of transactions #{} and #{}", tx.unwrap(), m.tx_index)));
                        return;
                    }
                    tx = Some(m.tx_index);
                }
            }
        }
        let want: Vec<u128> = after.tx_events(tx.unwrap()).iter().filter(|m| filter.map(|f| m.stream == f).unwrap_or(true)).map(|m| m.id).collect();
        let got: Vec<u128> = recs.iter().map(|r| r.event_id.as_u128()).collect();
        if got != want {
            out.push(problem(
                "partial-transaction",
                format!("{what} returned {} of the {} events of transaction #{} (seqs {:?})", got.len(), want.len(), tx.unwrap(), recs.iter().map(|r| r.partition_sequence).collect::<Vec<_>>()),
            ));
        }
    };
    // transaction lookups by first id, for every transaction of `after` (includes the in-flight one if it commits)
    for (ti, (part, range)) in after.txs.iter().enumerate() {
        let first = Uuid::from_u128(after.partitions[part][range.start].id);
        *evals += 1;
        let d = db.clone();
        let p = *part;
        if let Ok(Ok(Some(ce))) = h.rt.block_on(async move { tokio::time::timeout(Duration::from_secs(40), d.read_transaction(p, first)).await }) {
            let recs: Vec<EventRecord> = ce.into_iter().collect();
            judge_group(&recs, None, &format!("read_transaction(tx #{ti})"), &mut out);
        }
    }
    for id in inflight_ids {
        *evals += 1;
        let d = db.clone();
        let uid = *id;
        if let Ok(Ok(Some(rec))) = h.rt.block_on(async move { tokio::time::timeout(Duration::from_secs(40), d.read_event(partition_of(0), uid)).await }) {
            if will_fail {
                out.push(problem("failed-transaction-visible", format!("read_event returned event {} of the transaction that fails", rec.event_id)));
            }
        }
    }
    for (stream, ms) in &after.streams {
        *evals += 1;
        let part = ms.events.first().map(|(p, _)| *p).unwrap_or(0);
        if let Ok(groups) = h.scan_stream(stream, part, 0, IterDirection::Forward, 2) {
            for g in groups {
                let recs: Vec<EventRecord> = g.into_iter().collect();
                judge_group(&recs, Some(stream), &format!("stream scan of {stream}"), &mut out);
            }
        }
    }
    for part in after.partitions.keys() {
        *evals += 1;
        if let Ok(groups) = h.scan_partition(*part, 0, IterDirection::Forward, 2) {
            for g in groups {
                let recs: Vec<EventRecord> = g.into_iter().collect();
                judge_group(&recs, None, &format!("partition scan of {part}"), &mut out);
            }
        }
    }
    out
}

fn run_seam(compression: bool, sync: SyncMode, history: &[TxS], inflight: &TxS, case_json: &serde_json::Value, out: &mut WorkerOut) {
    pause::disable_all();
    let cfg = DbCfg::simple(MIN_SEG, compression, sync);
    let mut h = match H::new(cfg.clone(), "c04") {
        Ok(h) => h,
        Err(e) => vcommon::machinery_fail(&format!("open: {e}")),
    };
    for t in history {
        if let Err(p) = h.append(t) {
            out.outcome(format!("history-problem/{}", p.kind));
            return;
        }
    }
    let before = h.model.clone();
    let first_counter = h.counter + 1;
    let (mtx, rtx) = h.build(inflight);
    let rtx = rtx.expect("valid transaction");
    let ids: Vec<Uuid> = (0..inflight.events.len() as u64).map(|i| event_id(inflight.pk, first_counter + i)).collect();
    let will_fail = inflight.impl_failure_expected(cfg.seg);
    let mut after = before.clone();
    if !will_fail {
        after.apply(&mtx).expect("model accepts the in-flight transaction");
    }
    for l in LABELS {
        pause::enable(l);
    }
    let db = h.db().clone();
    let appender = std::thread::spawn(move || {
        let rt = new_rt();
        rt.block_on(async move { tokio::time::timeout(APPEND_DEADLINE, db.append_events(rtx)).await })
    });
    let mut stops: Vec<&'static str> = Vec::new();
    let deadline = std::time::Instant::now() + Duration::from_secs(12);
    let mut violated = false;
    while !appender.is_finished() {
        if std::time::Instant::now() > deadline {
            break;
        }
        let mut progressed = false;
        for l in LABELS {
            if pause::is_parked(l) {
                progressed = true;
                stops.push(l);
                out.transitions += 1;
                // every read API while the writer is stopped here; C04 only judges atomicity: whatever is
                // returned must be whole transactions of the model (visibility of older events is C15's subject)
                let probs = atomicity_problems(&h, &after, &ids, will_fail, &mut out.evals);
                let matched = "atomic";
                out.state(vcommon::fnv(format!("{l}/{matched}/{}", h.model.signature()).as_bytes()));
                if let Some(p) = probs.first() {
                    if !violated {
                        violated = true;
                        let shape = if will_fail { "failing" } else { "committing" };
                        out.violation(
                            &format!("C04/seam/{}/{l}/{shape}", p.kind),
                            &format!("{} [writer stopped at {l}; compression={compression} sync={sync:?}; history {} in-flight {}]", p.detail, serde_json::to_string(history).unwrap(), serde_json::to_string(inflight).unwrap()),
                            case_json.clone(),
                        );
                    }
                }
                pause::release(l);
            }
        }
        if !progressed {
            std::thread::sleep(Duration::from_micros(100));
        }
    }
    pause::disable_all();
    let res = appender.join();
    out.outcome(format!("stops={}", stops.join(">")));
    match res {
        Ok(Ok(Ok(_))) if !will_fail => {}
        Ok(Ok(Err(_))) if will_fail => {}
        Ok(Err(_)) | Err(_) => {
            out.violation("C04/seam/append-never-completed", &format!("the paused append did not complete [{case_json}]"), case_json.clone());
            return;
        }
        Ok(Ok(r)) => {
            out.violation("C04/seam/unexpected-result", &format!("in-flight append returned {:?} (expected failure: {will_fail})", r.map(|a| a.first_partition_sequence).map_err(|e| e.to_string())), case_json.clone());
            return;
        }
    }
    // final state: now the full oracle applies (the append has returned)
    h.model = after;
    let mut probs = h.check_reads(&mut out.evals);
    probs.extend(lookup_inflight_ids(&h, &ids, !will_fail, &mut out.evals));
    if let Some(p) = probs.first() {
        out.violation(&format!("C04/seam/final/{}", p.kind), &format!("{} [after the in-flight append returned; {case_json}]", p.detail), case_json.clone());
    }
    if out.cases_done % 50 == 0 {
        out.sample(json!({"seam": {"history": history, "inflight": inflight, "sync": sync, "stops": stops}}));
    }
}

pub fn run_case(case: &Case, out: &mut WorkerOut) {
    match case {
        Case::Cut(c) => {
            // re-wrap violations so that the replay case carries the C04 envelope
            let mut inner = WorkerOut { collected: Some(vec![]), ..Default::default() };
            c05::run_case_for("C04", c, &mut inner);
            out.transitions += inner.transitions;
            out.evals += inner.evals;
            for s in inner.states {
                out.state(s);
            }
            for o in inner.outcomes {
                out.outcome(format!("cut/{o}"));
            }
            for (k, d, cj) in inner.collected.unwrap() {
                let cc: c05::Case = serde_json::from_value(cj).unwrap();
                out.violation(&k, &d, serde_json::to_value(Case::Cut(cc)).unwrap());
            }
            if out.cases_done % 80 == 0 {
                out.sample(json!({"cut": {"history": c.history, "next": c.next, "k": format!("{}..{}", c.k_from, c.k_to)}}));
            }
        }
        Case::Seam { compression, sync, history, inflight } => {
            let cj = serde_json::to_value(case).unwrap();
            run_seam(*compression, *sync, history, inflight, &cj, out);
        }
    }
}

pub fn run(args: Args) {
    let tier = args.tier;
    let plan = Plan { property: "C04", level: "model_checking", cases: cases(tier), cap: if tier.is_thorough() { Duration::from_secs(1700) } else { Duration::from_secs(55) } };
    drive(args, plan, run_case, |m, total| {
        (
            json!({
                "states": m.states.len(),
                "transitions": m.transitions,
                "traces_validated_against_impl": m.cases_done,
                "samples": m.samples,
                "exhaustive": !m.capped,
                "work_units_enumerated": total,
                "work_units_executed": m.cases_done,
                "read_checks": m.evals,
                "distinct_observed_outcomes": m.outcomes.len(),
                "outcomes": m.outcomes.iter().take(60).collect::<Vec<_>>(),
                "seams": LABELS,
                "rule": "transition = one writer stop (seam schedules) or one crash image (cuts); at every stop / image every read API is evaluated for every event id, stream and partition of the history and of the in-flight transaction; states = distinct (stop label, model matched, model state) or distinct images",
            }),
            vec![
                "schedules are enumerated at seam granularity: the writer is stopped at the listed pause points (hook H2); instruction-level interleavings inside a step are not explored".into(),
                "the history sub-space of C04 is carried by the C01/C02/C03 oracles (every read_transaction / scan group is compared with the model transaction)".into(),
            ],
        )
    })
}
