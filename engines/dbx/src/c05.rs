//! C05 — a crash at any point recovers to a consistent committed prefix (and the crash-point part
//! of C04: a transaction without its commit record is never visible).
//!
//! For every history h and every next transaction t: h runs on a real database (sync on every
//! write), the data directory is copied, t runs to obtain the bytes it writes to the live segment;
//! then for EVERY k in 0..=n the crash image "the first k bytes of t's write reached the file" is
//! materialised, the real recovery (`DatabaseBuilder::open`) runs on it, and the result is compared
//! with the model of h or h+t through every read API, then continued with further appends and
//! reopened once more.

use std::path::{Path, PathBuf};
use std::time::Duration;

use serde::{Deserialize, Serialize};
use serde_json::json;
use uuid::Uuid;
use vcommon::model::Model;
use vcommon::workers::WorkerOut;
use vcommon::{Args, Tier};

use crate::harness::*;
use crate::{Plan, drive};

pub const CHUNK: usize = 48;

#[derive(Serialize, Deserialize, Clone, Debug)]
pub struct Case {
    pub compression: bool,
    pub history: Vec<TxS>,
    pub next: TxS,
    /// cuts k in [k_from, k_to) (clipped to the number of bytes t writes, inclusive of n)
    pub k_from: usize,
    pub k_to: usize,
}

fn ev(stream: u8, size: Size, bad: Bad) -> EvS {
    EvS { stream, exp: ExpS::Any, size, bad }
}

pub fn history_alphabet() -> Vec<TxS> {
    vec![
        TxS::single(0, 0, Size::Tiny),
        TxS::multi(0, &[0, 1], Size::Tiny),
        TxS { pk: 0, events: vec![ev(0, Size::Tiny, Bad::No), ev(1, Size::Tiny, Bad::Timestamp)], exp_seq: ExpS::Any, conf: 0 },
        TxS::multi(0, &[0, 1, 0], Size::Tiny),
        TxS::single(0, 0, Size::Small),
    ]
}

pub fn next_alphabet() -> Vec<TxS> {
    vec![TxS::multi(0, &[0, 1], Size::Tiny), TxS::single(0, 0, Size::Tiny), TxS::multi(0, &[0, 1, 0], Size::Tiny), TxS::single(0, 1, Size::Small)]
}

fn histories(depth: usize) -> Vec<Vec<TxS>> {
    let a = history_alphabet();
    let mut out = vec![vec![]];
    let mut level: Vec<Vec<TxS>> = vec![vec![]];
    for _ in 0..depth {
        let mut next = Vec::new();
        for h in &level {
            for x in &a {
                let mut n = h.clone();
                n.push(x.clone());
                next.push(n);
            }
        }
        out.extend(next.iter().cloned());
        level = next;
    }
    out
}

/// Number of CHUNK-sized cut ranges that cover every byte `t` can write (an upper bound on its stored size; the run
/// checks that the bound holds).
fn chunks_for(t: &TxS) -> usize {
    (t.estimated_size() + 64) / CHUNK + 1
}

pub fn cases(tier: Tier, multi_only: bool) -> Vec<Case> {
    let mut v = Vec::new();
    let (depth, comps): (usize, Vec<bool>) = if tier.is_thorough() { (3, vec![true, false]) } else { (1, vec![true]) };
    let mut hs = histories(depth);
    if !tier.is_thorough() {
        // plus the depth-2 histories that start with a failed (half-written) append
        let failed = history_alphabet()[2].clone();
        for x in history_alphabet().into_iter().take(2) {
            hs.push(vec![failed.clone(), x]);
        }
    }
    for compression in comps {
        for h in &hs {
            for (ti, t) in next_alphabet().into_iter().enumerate() {
                if multi_only && t.events.len() < 2 {
                    continue;
                }
                // quick: behind a two-step history only the two smallest next transactions
                if !tier.is_thorough() && h.len() == 2 && ti >= 2 {
                    continue;
                }
                for c in 0..chunks_for(&t) {
                    v.push(Case { compression, history: h.clone(), next: t.clone(), k_from: c * CHUNK, k_to: (c + 1) * CHUNK });
                }
            }
        }
    }
    v
}

fn copy_dir(from: &Path, to: &Path) {
    let _ = std::fs::remove_dir_all(to);
    std::fs::create_dir_all(to).unwrap();
    for e in std::fs::read_dir(from).unwrap() {
        let e = e.unwrap();
        let p = e.path();
        let dst = to.join(e.file_name());
        if p.is_dir() {
            copy_dir(&p, &dst);
        } else {
            std::fs::copy(&p, &dst).unwrap();
        }
    }
}

fn live_segment_path(dir: &Path) -> PathBuf {
    let segs = dir.join("buckets").join("00000").join("segments");
    let mut ids: Vec<u32> = std::fs::read_dir(&segs).unwrap().filter_map(|e| e.ok()?.file_name().to_str()?.parse().ok()).collect();
    ids.sort();
    segs.join(format!("{:010}", ids.last().unwrap())).join("data.evts")
}

pub struct Prepared {
    pub pre_dir: PathBuf,
    pub pre_bytes: Vec<u8>,
    pub post_bytes: Vec<u8>,
    pub live_rel: PathBuf,
    pub o: usize,
    pub n: usize,
    /// offsets (relative to o) at which records of t start, and the commit start (if any)
    pub record_starts: Vec<usize>,
    pub commit_start: Option<usize>,
    pub model_h: Model,
    pub model_ht: Model,
    pub counter_after: u64,
    pub t_ids: Vec<u128>,
}

/// Runs h, copies the directory, runs t, and extracts the byte range t wrote.
pub fn prepare(case: &Case) -> Result<Prepared, String> {
    let mut cfg = DbCfg::simple(MIN_SEG, case.compression, SyncMode::EveryWrite);
    cfg.reader_threads = 1;
    let mut h = H::new(cfg, "c05")?;
    for t in &case.history {
        h.append(t).map_err(|p| format!("history step failed the C01/C02 oracle ({}: {})", p.kind, p.detail))?;
    }
    h.shutdown();
    let pre_dir = fresh_dir("c05pre");
    copy_dir(&h.dir, &pre_dir);
    let live = live_segment_path(&h.dir);
    let live_rel = live.strip_prefix(&h.dir).unwrap().to_path_buf();
    let pre_bytes = std::fs::read(&live).map_err(|e| e.to_string())?;
    let model_h = h.model.clone();
    h.reopen()?;
    let first_counter = h.counter + 1;
    let res = h.append(&case.next).map_err(|p| format!("t failed the oracle ({}: {})", p.kind, p.detail))?.ok_or("t was rejected")?;
    let t_ids: Vec<u128> = (0..case.next.events.len() as u64).map(|i| event_id(case.next.pk, first_counter + i).as_u128()).collect();
    let model_ht = h.model.clone();
    let counter_after = h.counter;
    h.shutdown();
    let post_bytes = std::fs::read(&live).map_err(|e| e.to_string())?;
    let o = res.offsets[0] as usize;
    // end of what t wrote = last differing byte + 1 (the tail is fallocated zeros in both)
    let mut end = post_bytes.len();
    while end > o && post_bytes[end - 1] == pre_bytes[end - 1] {
        end -= 1;
    }
    if pre_bytes[..o] != post_bytes[..o] {
        return Err("bytes before t's first offset changed".into());
    }
    let n = end - o;
    let record_starts: Vec<usize> = res.offsets.iter().map(|x| *x as usize - o).collect();
    let commit_start = if case.next.events.len() > 1 { Some(n - 37) } else { None };
    Ok(Prepared { pre_dir, pre_bytes, post_bytes, live_rel, o, n, record_starts, commit_start, model_h, model_ht, counter_after, t_ids })
}

pub fn cut_class(p: &Prepared, k: usize) -> &'static str {
    if k == 0 {
        return "nothing-written";
    }
    if k == p.n {
        return "complete";
    }
    if let Some(c) = p.commit_start {
        if k == c {
            return "after-last-event-before-commit";
        }
        if k > c {
            return "inside-commit";
        }
    }
    if p.record_starts.contains(&k) {
        return "between-events";
    }
    if p.record_starts.len() > 1 && k < p.record_starts[1] {
        return "inside-first-event";
    }
    if p.record_starts.len() == 1 {
        return "inside-single-event";
    }
    "inside-later-event"
}

/// Checks one recovered database against a model; additionally the ids of t's events must not
/// resolve to anything when t is not part of the model.
fn check_against(h: &H, t_ids: &[u128], t_in_model: bool, evals: &mut u64) -> Vec<Problem> {
    let mut probs = h.check_reads(evals);
    if !t_in_model {
        for id in t_ids {
            *evals += 1;
            let db = h.db().clone();
            let uid = Uuid::from_u128(*id);
            let part = partition_of(0);
            match h.rt.block_on(async move { tokio::time::timeout(Duration::from_secs(40), db.read_event(part, uid)).await }) {
                Ok(Ok(None)) => {}
                Ok(Ok(Some(rec))) => {
                    if rec.event_id.as_u128() == *id {
                        probs.push(problem("uncommitted-event-visible", format!("read_event returns event {uid} of the transaction whose commit record never reached the disk")));
                    } else {
                        probs.push(problem("lookup-returns-other-event", format!("read_event({uid}) (an event of the uncommitted transaction) returned event {} (seq {})", rec.event_id, rec.partition_sequence)));
                    }
                }
                Ok(Err(e)) => probs.push(problem("lookup-of-uncommitted-id-errors", format!("read_event({uid}) failed: {e}"))),
                Err(_) => probs.push(problem("read_event-hang", "read_event timed out")),
            }
        }
    }
    probs
}

/// Returns the problems of one crash image (empty = fine) and the outcome label.
pub fn check_image(case: &Case, p: &Prepared, k: usize, scratch: &Path, evals: &mut u64) -> (Vec<Problem>, &'static str) {
    // materialise: pre directory + first k bytes of t
    copy_dir(&p.pre_dir, scratch);
    let mut img = p.pre_bytes.clone();
    img[p.o..p.o + k].copy_from_slice(&p.post_bytes[p.o..p.o + k]);
    std::fs::write(scratch.join(&p.live_rel), &img).unwrap();

    let mut cfg = DbCfg::simple(MIN_SEG, case.compression, SyncMode::EveryWrite);
    cfg.reader_threads = 1;
    // recover; judge against h first, then against h+t
    let mut h = match H::open_existing(cfg.clone(), scratch, p.model_h.clone(), p.counter_after + 100) {
        Ok(h) => h,
        Err(e) => return (vec![problem("reopen-failed", e)], "reopen-failed"),
    };
    let mut outcome = "recovered-h";
    let mut probs = check_against(&h, &p.t_ids, false, evals);
    if !probs.is_empty() {
        h.model = p.model_ht.clone();
        let probs2 = check_against(&h, &p.t_ids, true, evals);
        if probs2.is_empty() {
            // the whole of t is there: only legitimate when its commit record (or the single record) is complete
            if k < p.n {
                return (vec![problem("incomplete-transaction-recovered", format!("with only {k} of {} bytes of t on disk the database shows all of t", p.n))], "recovered-h+t-early");
            }
            outcome = "recovered-h+t";
            probs.clear();
        } else {
            h.model = p.model_h.clone();
        }
    }
    if !probs.is_empty() {
        return (probs, "inconsistent");
    }
    // continuation: further appends continue sequences and versions without gap or reuse
    for t in [TxS::single(0, 0, Size::Tiny), TxS::multi(0, &[1, 0], Size::Tiny)] {
        if let Err(pr) = h.append(&t) {
            return (vec![problem(format!("continuation/{}", pr.kind), pr.detail)], "continuation-broken");
        }
        if h.model.txs.is_empty() {
            return (vec![problem("continuation/rejected", "a plain append after recovery was rejected")], "continuation-broken");
        }
    }
    let probs = check_against(&h, &p.t_ids, outcome == "recovered-h+t", evals);
    if !probs.is_empty() {
        return (probs.into_iter().map(|p| problem(format!("after-continuation/{}", p.kind), p.detail)).collect(), "continuation-broken");
    }
    if let Err(e) = h.reopen() {
        return (vec![problem("second-reopen-failed", e)], "second-reopen-failed");
    }
    let probs = check_against(&h, &p.t_ids, outcome == "recovered-h+t", evals);
    if !probs.is_empty() {
        return (probs.into_iter().map(|p| problem(format!("after-second-reopen/{}", p.kind), p.detail)).collect(), "second-reopen-inconsistent");
    }
    (vec![], outcome)
}

pub fn run_case_for(property: &str, case: &Case, out: &mut WorkerOut) {
    let p = match prepare(case) {
        Ok(p) => p,
        Err(e) => {
            // the history itself already violates C01/C02 (reported there); nothing to cut here
            out.outcome(format!("prepare-failed: {e}"));
            return;
        }
    };
    if p.n + 1 > chunks_for(&case.next) * CHUNK {
        vcommon::machinery_fail(&format!("C05: the transaction wrote {} bytes, more than the {} cut positions enumerated for it", p.n, chunks_for(&case.next) * CHUNK));
    }
    let scratch = fresh_dir("c05img");
    let lo = case.k_from.min(p.n + 1);
    let hi = case.k_to.min(p.n + 1);
    for k in lo..hi {
        let cls = cut_class(&p, k);
        // C04's share of this engine: only cuts strictly inside a multi-event transaction
        if property == "C04" && (p.commit_start.is_none() || k == 0 || k == p.n) {
            continue;
        }
        out.transitions += 1;
        let (probs, outcome) = check_image(case, &p, k, &scratch, &mut out.evals);
        out.outcome(format!("{cls}/{outcome}"));
        out.state(vcommon::fnv(format!("{:?}|{:?}|{}|{}", case.history, case.next, case.compression, k).as_bytes()));
        if let Some(pr) = probs.first() {
            let shape = if case.next.events.len() == 1 { "single" } else { "multi" };
            let after_failed = case.history.iter().any(|t| t.events.iter().any(|e| e.bad != Bad::No));
            let key = format!("{property}/{}/{cls}/t={shape}{}", pr.kind, if after_failed { "/after-failed-append" } else { "" });
            let mut c = case.clone();
            c.k_from = k;
            c.k_to = k + 1;
            out.violation(
                &key,
                &format!("{} [cut after {k} of {} bytes of t ({cls}); compression={} history {} t {}]", pr.detail, p.n, case.compression, serde_json::to_string(&case.history).unwrap(), serde_json::to_string(&case.next).unwrap()),
                serde_json::to_value(&c).unwrap(),
            );
        }
    }
    let _ = std::fs::remove_dir_all(&scratch);
    let _ = std::fs::remove_dir_all(&p.pre_dir);
    if out.cases_done % 40 == 0 && lo < hi {
        out.sample(json!({"history": case.history, "next": case.next, "compression": case.compression, "cuts": format!("{lo}..{hi} of {}", p.n)}));
    }
}

pub fn run_case(case: &Case, out: &mut WorkerOut) {
    run_case_for("C05", case, out)
}

pub fn run(args: Args) {
    let tier = args.tier;
    let plan = Plan { property: "C05", level: "fault_enumeration", cases: cases(tier, false), cap: if tier.is_thorough() { Duration::from_secs(1700) } else { Duration::from_secs(55) } };
    drive(args, plan, run_case, |m, total| {
        (
            json!({
                "evaluations": m.transitions,
                "distinct_nontrivial": m.states.len(),
                "rule": "one evaluation = one crash image (history h, next transaction t, cut k) recovered by the real DatabaseBuilder::open and judged through every read API, continuation appends and a second reopen; distinct = distinct (h, t, compression, k); every byte boundary k in 0..=n of t's write is enumerated",
                "samples": m.samples,
                "exhaustive": !m.capped,
                "work_units_enumerated": total,
                "work_units_executed": m.cases_done,
                "read_checks": m.evals,
                "distinct_observed_outcomes": m.outcomes.len(),
                "outcomes": m.outcomes,
                "history_alphabet": history_alphabet().iter().map(|o| serde_json::to_value(o).unwrap()).collect::<Vec<_>>(),
                "next_alphabet": next_alphabet().iter().map(|o| serde_json::to_value(o).unwrap()).collect::<Vec<_>>(),
            }),
            vec![
                "crash model: a process crash keeps what reached write(2) in order; the unsynced tail is a byte prefix of t's write over the fallocated zero fill (exactly the statement's quantifier)".into(),
                "everything before t's first byte was acknowledged with sync-on-every-write".into(),
            ],
        )
    })
}
