//! C02 — appends are accepted exactly when their version conditions hold.
//!
//! All histories up to a depth over a validation-centred alphabet (every expectation kind, right and
//! wrong, on single / repeated / multiple streams, expected partition sequences, key mismatch),
//! with a rollover-forcing filler, reopen, and back-to-back batches so that the latest version is
//! found in turn in the pending (unsynced) entries, the open index, a sealed in-memory index and an
//! MPHF index after reopen.

use std::time::Duration;

use serde::{Deserialize, Serialize};
use serde_json::json;
use sierradb::StreamId;
use vcommon::workers::WorkerOut;
use vcommon::{Args, Tier};

use crate::harness::*;
use crate::{Plan, drive};

#[derive(Serialize, Deserialize, Clone, Debug)]
pub struct Case {
    pub cfg: DbCfg,
    pub ops: Vec<Op>,
}

fn e(stream: u8, exp: ExpS) -> EvS {
    EvS { stream, exp, size: Size::Tiny, bad: Bad::No }
}
fn tx(pk: u8, events: Vec<EvS>, exp_seq: ExpS) -> Op {
    Op::Append(TxS { pk, events, exp_seq, conf: 0 })
}

pub fn alphabet(core: bool) -> Vec<Op> {
    use ExpS::*;
    let mut v = vec![
        tx(0, vec![e(0, Any)], Any),
        tx(0, vec![e(0, Cur(0))], Any),
        tx(0, vec![e(0, Empty)], Any),
        tx(0, vec![e(0, Cur(1))], Any),
        tx(0, vec![e(0, Exists)], Any),
        tx(0, vec![e(0, Cur(0)), e(0, Cur(0))], Any),
        tx(0, vec![e(0, Any), e(1, Empty)], Any),
        tx(0, vec![e(0, Any)], Cur(0)),
        tx(0, vec![e(0, Any)], Empty),
        Op::Append(TxS::single(0, 3, Size::Block)), // filler on its own stream: forces rollovers
        Op::Reopen,
        Op::Batch(vec![TxS { pk: 0, events: vec![e(0, Any)], exp_seq: Any, conf: 0 }, TxS { pk: 0, events: vec![e(0, Cur(0))], exp_seq: Cur(0), conf: 0 }]),
        // stream 0 belongs to key 0
        tx(1, vec![e(0, Any)], Any),
    ];
    if !core {
        v.extend([
            tx(0, vec![e(0, Cur(-1))], Any),
            tx(0, vec![e(0, Cur(0)), e(0, Cur(1))], Any),
            tx(0, vec![e(0, Empty), e(0, Empty)], Any),
            tx(0, vec![e(0, Empty), e(0, Cur(0))], Any),
            tx(0, vec![e(0, Any), e(1, Any), e(0, Cur(0))], Any),
            tx(0, vec![e(0, Exists), e(1, Exists)], Any),
            tx(0, vec![e(0, Any)], Cur(1)),
            tx(0, vec![e(0, Any)], Cur(-1)),
            tx(0, vec![e(0, Any)], Exists),
            tx(1, vec![e(2, Any)], Any),
            tx(1, vec![e(2, Empty)], Empty),
            tx(1, vec![e(2, Cur(0))], Cur(0)),
            Op::Batch(vec![TxS { pk: 0, events: vec![e(0, Empty)], exp_seq: Any, conf: 0 }, TxS { pk: 0, events: vec![e(0, Empty)], exp_seq: Any, conf: 0 }]),
            Op::Batch(vec![TxS { pk: 0, events: vec![e(0, Any), e(1, Any)], exp_seq: Any, conf: 0 }, TxS { pk: 1, events: vec![e(1, Any)], exp_seq: Any, conf: 0 }, TxS { pk: 0, events: vec![e(1, Cur(0))], exp_seq: Cur(0), conf: 0 }]),
        ]);
    }
    v
}

fn sequences(alpha: &[Op], depth: usize, min_len: usize) -> Vec<Vec<Op>> {
    sequences_behind(alpha, depth, min_len, false)
}

/// `behind_prefix`: the sequences continue a non-empty history, so a leading reopen is meaningful.
fn sequences_behind(alpha: &[Op], depth: usize, min_len: usize, behind_prefix: bool) -> Vec<Vec<Op>> {
    let mut out: Vec<Vec<Op>> = Vec::new();
    let mut level: Vec<Vec<Op>> = vec![vec![]];
    for d in 1..=depth {
        let mut next = Vec::new();
        for h in &level {
            for a in alpha {
                if matches!(a, Op::Reopen) && (matches!(h.last(), Some(Op::Reopen)) || (h.is_empty() && !behind_prefix)) {
                    continue;
                }
                let mut n = h.clone();
                n.push(a.clone());
                next.push(n);
            }
        }
        if d >= min_len {
            out.extend(next.iter().cloned());
        }
        level = next;
    }
    out
}

fn cfg_for(ops: &[Op]) -> DbCfg {
    // batches only exercise the pending lookup when the sync is deferred
    if ops.iter().any(|o| matches!(o, Op::Batch(_))) {
        DbCfg::simple(MIN_SEG, true, SyncMode::Timer(10, 10))
    } else {
        DbCfg::simple(MIN_SEG, true, SyncMode::EveryWrite)
    }
}

pub fn cases(tier: Tier) -> Vec<Case> {
    let mut v = Vec::new();
    if tier.is_thorough() {
        for ops in sequences(&alphabet(false), 3, 1) {
            v.push(Case { cfg: cfg_for(&ops), ops });
        }
        for ops in sequences(&alphabet(true), 4, 4) {
            v.push(Case { cfg: cfg_for(&ops), ops });
        }
        for ops in sequences(&alphabet(true)[..8], 5, 5) {
            v.push(Case { cfg: cfg_for(&ops), ops });
        }
    } else {
        for ops in sequences(&alphabet(true), 3, 1) {
            v.push(Case { cfg: cfg_for(&ops), ops });
        }
        for ops in sequences(&alphabet(false), 2, 1) {
            v.push(Case { cfg: cfg_for(&ops), ops });
        }
    }
    // from non-initial states: a full live segment (the next append rolls it over), and a sealed segment plus a live
    // segment that both hold events of the partition (the latest version / sequence then has to be found across
    // both, also after a reopen)
    let filler = Op::Append(TxS::single(0, 3, Size::Block));
    for prefix_len in [2usize, 3] {
        let depth = if tier.is_thorough() { 3 } else { 2 };
        for suffix in sequences_behind(&alphabet(true), depth, 1, true) {
            let mut ops: Vec<Op> = vec![filler.clone(); prefix_len];
            ops.extend(suffix);
            v.push(Case { cfg: cfg_for(&ops), ops });
        }
    }
    v
}

fn diagnose(ops: &[Op]) -> &'static str {
    let n = ops.len();
    let filler = |o: &Op| matches!(o, Op::Append(t) if t.events.iter().any(|e| e.size == Size::Block));
    if matches!(ops[n - 1], Op::Batch(_)) {
        "in-batch(pending-lookup)"
    } else if ops[..n - 1].iter().any(|o| matches!(o, Op::Reopen)) {
        "after-reopen"
    } else if ops.iter().filter(|o| filler(o)).count() >= 3 {
        "after-rollover"
    } else if ops[..n - 1].iter().any(|o| matches!(o, Op::Batch(_))) {
        "after-batch"
    } else {
        "plain"
    }
}

pub fn run_case(case: &Case, out: &mut WorkerOut) {
    let report = |out: &mut WorkerOut, p: &Problem, step: usize| {
        let ops: Vec<Op> = case.ops[..=step].to_vec();
        let key = format!("C02/{}/{}", p.kind, diagnose(&ops));
        out.outcome(key.clone());
        out.violation(&key, &format!("{} [{} ops {}]", p.detail, case.cfg.label(), serde_json::to_string(&ops).unwrap()), serde_json::to_value(Case { cfg: case.cfg.clone(), ops }).unwrap());
    };
    let mut h = match H::new(case.cfg.clone(), "c02") {
        Ok(h) => h,
        Err(e) => vcommon::machinery_fail(&format!("cannot open fresh database: {e}")),
    };
    for (step, op) in case.ops.iter().enumerate() {
        out.transitions += 1;
        let r = match op {
            Op::Reopen => h.reopen().map_err(|e| problem("reopen-failed", e)),
            Op::Append(t) => h.append(t).map(|_| ()),
            Op::Batch(ts) => h.append_batch(ts).map(|_| ()),
        };
        if let Err(p) = r {
            report(out, &p, step);
            return;
        }
        // version queries for every stream / partition of the alphabet, present or not
        for s in 0..4u8 {
            out.evals += 1;
            let name = stream_name("", s);
            let pk = if s == 2 { 1 } else { 0 };
            let db = h.db().clone();
            let sid = StreamId::new(name.clone()).unwrap();
            let got = h.rt.block_on(async move { db.get_stream_version(partition_of(pk), &sid).await });
            match got {
                Err(e) => {
                    report(out, &problem("stream-version-error", format!("get_stream_version({name}): {e}")), step);
                    return;
                }
                Ok(v) => {
                    if v.map(|x| x.version) != h.model.stream_version(&name) {
                        report(out, &problem("stream-version-wrong", format!("get_stream_version({name}) = {:?}, model {:?}", v.map(|x| x.version), h.model.stream_version(&name))), step);
                        return;
                    }
                }
            }
        }
        for pk in 0..3u8 {
            out.evals += 1;
            let part = partition_of(pk);
            let db = h.db().clone();
            match h.rt.block_on(async move { db.get_partition_sequence(part).await }) {
                Err(e) => {
                    report(out, &problem("partition-sequence-error", format!("get_partition_sequence({part}): {e}")), step);
                    return;
                }
                Ok(v) => {
                    if v.map(|x| x.sequence) != h.model.partition_sequence(part) {
                        report(out, &problem("partition-sequence-wrong", format!("get_partition_sequence({part}) = {:?}, model {:?}", v.map(|x| x.sequence), h.model.partition_sequence(part))), step);
                        return;
                    }
                }
            }
        }
        // a rejected append changes nothing observable, an accepted one is visible: full read-back
        let probs = h.check_reads(&mut out.evals);
        out.state(h.model.signature());
        if let Some(p) = probs.first() {
            report(out, p, step);
            return;
        }
    }
    out.outcome("ok");
    if out.cases_done % 300 == 0 {
        out.sample(serde_json::to_value(case).unwrap());
    }
}

pub fn run(args: Args) {
    let tier = args.tier;
    let plan = Plan { property: "C02", level: "model_checking", cases: cases(tier), cap: if tier.is_thorough() { Duration::from_secs(1500) } else { Duration::from_secs(50) } };
    drive(args, plan, run_case, |m, total| {
        (
            json!({
                "states": m.states.len(),
                "transitions": m.transitions,
                "traces_validated_against_impl": m.cases_done,
                "samples": m.samples,
                "exhaustive": !m.capped,
                "histories_enumerated": total,
                "histories_executed": m.cases_done,
                "queries": m.evals,
                "distinct_observed_outcomes": m.outcomes.len(),
                "alphabet": alphabet(!tier.is_thorough()).iter().map(|o| serde_json::to_value(o).unwrap()).collect::<Vec<_>>(),
                "rule": "all histories up to the stated depth over the validation alphabet, each on a fresh real database; states = distinct model states; acceptance, result sequences/versions, version queries and a full read-back are compared with the model after every step",
            }),
            vec!["batches rely on the writer's FIFO channel: first polls happen in list order, which fixes the arrival order".into()],
        )
    })
}
