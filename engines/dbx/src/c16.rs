//! C16 — concurrent conflicting appends are serialised.
//!
//! The bucket's writer is a FIFO consumer, so every interleaving of n racing clients collapses to
//! (arrival order) x (where syncs fall).  Both are enumerated: for every multiset of n conflicting
//! requests, all n! arrival orders, on every sync mode / bucket-thread layout / pre-state.  The
//! oracle is as weak as the statement: SOME serial order of the requests must explain every
//! individual result and the final database.

use std::time::Duration;

use serde::{Deserialize, Serialize};
use serde_json::json;
use vcommon::model::{Accepted, MTx, Model};
use vcommon::workers::WorkerOut;
use vcommon::{Args, Tier};

use crate::harness::*;
use crate::{Plan, drive};

#[derive(Serialize, Deserialize, Clone, Debug)]
pub struct Case {
    pub cfg: DbCfg,
    /// 0 = empty, 1 = stream 0 has one event, 2 = that event lives in a sealed segment
    pub pre: u8,
    /// requests in arrival order (indices into the request alphabet)
    pub arrival: Vec<usize>,
}

fn e(stream: u8, exp: ExpS) -> EvS {
    EvS { stream, exp, size: Size::Tiny, bad: Bad::No }
}

pub fn requests() -> Vec<TxS> {
    use ExpS::*;
    vec![
        TxS { pk: 0, events: vec![e(0, Empty)], exp_seq: Any, conf: 0 },
        TxS { pk: 0, events: vec![e(0, Cur(0))], exp_seq: Any, conf: 0 },
        TxS { pk: 0, events: vec![e(0, Cur(0)), e(0, Cur(0))], exp_seq: Any, conf: 0 },
        TxS { pk: 0, events: vec![e(0, Empty), e(1, Empty)], exp_seq: Any, conf: 0 },
        TxS { pk: 0, events: vec![e(1, Any)], exp_seq: Empty, conf: 0 },
        TxS { pk: 0, events: vec![e(1, Any)], exp_seq: Cur(0), conf: 0 },
        TxS { pk: 1, events: vec![e(2, Empty)], exp_seq: Empty, conf: 0 },
        TxS { pk: 0, events: vec![e(0, Any)], exp_seq: Any, conf: 0 },
        TxS { pk: 0, events: vec![e(0, Cur(1))], exp_seq: Cur(1), conf: 0 },
    ]
}

fn multisets(n_alpha: usize, n: usize) -> Vec<Vec<usize>> {
    fn rec(start: usize, n_alpha: usize, left: usize, cur: &mut Vec<usize>, out: &mut Vec<Vec<usize>>) {
        if left == 0 {
            out.push(cur.clone());
            return;
        }
        for i in start..n_alpha {
            cur.push(i);
            rec(i, n_alpha, left - 1, cur, out);
            cur.pop();
        }
    }
    let mut out = Vec::new();
    rec(0, n_alpha, n, &mut Vec::new(), &mut out);
    out
}

fn permutations(items: &[usize]) -> Vec<Vec<usize>> {
    if items.len() <= 1 {
        return vec![items.to_vec()];
    }
    let mut out = Vec::new();
    for i in 0..items.len() {
        let mut rest = items.to_vec();
        let x = rest.remove(i);
        for mut p in permutations(&rest) {
            p.insert(0, x);
            out.push(p);
        }
    }
    out.sort();
    out.dedup();
    out
}

pub fn cases(tier: Tier) -> Vec<Case> {
    let mut v = Vec::new();
    let na = requests().len();
    let cfgs: Vec<DbCfg> = if tier.is_thorough() {
        let mut c = vec![DbCfg::simple(MIN_SEG, true, SyncMode::EveryWrite), DbCfg::simple(MIN_SEG, true, SyncMode::Timer(8, 8)), DbCfg::simple(MIN_SEG, false, SyncMode::Timer(3, 3))];
        let mut two = DbCfg::simple(MIN_SEG, true, SyncMode::Timer(8, 8));
        two.buckets = 2;
        c.push(two.clone());
        two.writer_threads = 2;
        c.push(two);
        c
    } else {
        vec![DbCfg::simple(MIN_SEG, true, SyncMode::Timer(8, 8))]
    };
    let sizes: Vec<usize> = if tier.is_thorough() { vec![2, 3, 4] } else { vec![2, 3] };
    for cfg in &cfgs {
        for pre in 0..3u8 {
            // the sealed-segment pre-state only differs in where the version lookup finds the stream
            if pre == 2 && !tier.is_thorough() && cfg.buckets != 1 {
                continue;
            }
            for &n in &sizes {
                // 4 racing clients only on the two single-bucket deferred-sync layouts
                if n == 4 && !(cfg.buckets == 1 && !matches!(cfg.sync, SyncMode::EveryWrite)) {
                    continue;
                }
                for ms in multisets(na, n) {
                    for arrival in permutations(&ms) {
                        v.push(Case { cfg: cfg.clone(), pre, arrival });
                    }
                }
            }
        }
    }
    v
}

#[derive(Debug, Clone, PartialEq)]
enum Obs {
    Ok { first: u64, last: u64, versions: Vec<(String, u64)> },
    Rejected,
}

fn explain(pre: &Model, txs: &[MTx], obs: &[Obs]) -> Option<(Vec<usize>, Model)> {
    let idx: Vec<usize> = (0..txs.len()).collect();
    for order in permutations(&idx) {
        let mut m = pre.clone();
        let mut ok = true;
        for &i in &order {
            let r: Result<Accepted, _> = m.apply(&txs[i]);
            let matches = match (&r, &obs[i]) {
                (Err(_), Obs::Rejected) => true,
                (Ok(a), Obs::Ok { first, last, versions }) => {
                    let mut av: Vec<(String, u64)> = a.stream_versions.iter().map(|(k, v)| (k.clone(), *v)).collect();
                    av.sort();
                    a.first_seq == *first && a.last_seq == *last && av == *versions
                }
                _ => false,
            };
            if !matches {
                ok = false;
                break;
            }
        }
        if ok {
            return Some((order, m));
        }
    }
    None
}

pub fn run_case(case: &Case, out: &mut WorkerOut) {
    let reqs = requests();
    let mut h = match H::new(case.cfg.clone(), "c16") {
        Ok(h) => h,
        Err(e) => vcommon::machinery_fail(&format!("open: {e}")),
    };
    // pre-state
    let mut setup: Vec<TxS> = Vec::new();
    if case.pre >= 1 {
        setup.push(TxS::single(0, 0, Size::Tiny));
    }
    if case.pre == 2 {
        // three block-sized fillers on another stream force a rollover: stream 0's event is then sealed
        for _ in 0..3 {
            setup.push(TxS::single(0, 3, Size::Block));
        }
    }
    for t in &setup {
        if let Err(p) = h.append(t) {
            out.outcome(format!("setup-problem/{}", p.kind));
            return;
        }
    }
    let pre_model = h.model.clone();
    // all requests are built against the same pre-state: that is what racing clients know
    let mut mtxs = Vec::new();
    let mut rtxs = Vec::new();
    for &ri in &case.arrival {
        let (m, r) = h.build(&reqs[ri]);
        mtxs.push(m);
        rtxs.push(r.expect("valid transaction"));
    }
    let db = h.db().clone();
    let futs: Vec<_> = rtxs.iter().map(|t| db.append_events(t.clone())).collect();
    out.transitions += case.arrival.len() as u64;
    let results = match h.rt.block_on(async move { tokio::time::timeout(APPEND_DEADLINE, futures::future::join_all(futs)).await }) {
        Ok(r) => r,
        Err(_) => {
            out.violation("C16/append-never-completed", &format!("racing appends did not all return [{} arrival {:?}]", case.cfg.label(), case.arrival), serde_json::to_value(case).unwrap());
            return;
        }
    };
    let obs: Vec<Obs> = results
        .iter()
        .map(|r| match r {
            Ok(a) => {
                let mut versions: Vec<(String, u64)> = a.stream_versions.iter().map(|(k, v)| (k.to_string(), *v)).collect();
                versions.sort();
                Obs::Ok { first: a.first_partition_sequence, last: a.last_partition_sequence, versions }
            }
            Err(_) => Obs::Rejected,
        })
        .collect();
    let pattern: String = obs.iter().map(|o| if matches!(o, Obs::Rejected) { 'r' } else { 'A' }).collect();
    match explain(&pre_model, &mtxs, &obs) {
        None => {
            out.outcome(format!("unexplained/{pattern}"));
            out.violation(
                &format!("C16/no-serial-order/n={}/pre={}", case.arrival.len(), case.pre),
                &format!("no serial order of the {} requests explains the results {:?} [{} pre-state {} arrival {:?}]", case.arrival.len(), obs, case.cfg.label(), case.pre, case.arrival),
                serde_json::to_value(case).unwrap(),
            );
        }
        Some((order, model)) => {
            let is_arrival = order.iter().enumerate().all(|(i, &x)| i == x);
            out.outcome(format!("{pattern}/{}", if is_arrival { "arrival-order" } else { "other-order" }));
            out.count(if is_arrival { "explained_by_arrival_order" } else { "explained_by_other_order" }, 1);
            h.model = model;
            let probs = h.check_reads(&mut out.evals);
            out.state(h.model.signature());
            if let Some(p) = probs.first() {
                out.violation(
                    &format!("C16/final-state/{}/pre={}", p.kind, case.pre),
                    &format!("results are explained by serial order {order:?} but the final database differs: {} [{} arrival {:?}]", p.detail, case.cfg.label(), case.arrival),
                    serde_json::to_value(case).unwrap(),
                );
            }
        }
    }
    if out.cases_done % 200 == 0 {
        out.sample(json!({"cfg": case.cfg, "pre": case.pre, "arrival": case.arrival.iter().map(|i| serde_json::to_value(&reqs[*i]).unwrap()).collect::<Vec<_>>(), "observed": format!("{obs:?}")}));
    }
}

pub fn run(args: Args) {
    let tier = args.tier;
    let plan = Plan { property: "C16", level: "model_checking", cases: cases(tier), cap: if tier.is_thorough() { Duration::from_secs(1500) } else { Duration::from_secs(50) } };
    drive(args, plan, run_case, |m, total| {
        (
            json!({
                "states": m.states.len().max(1),
                "transitions": m.transitions,
                "traces_validated_against_impl": m.cases_done,
                "samples": m.samples,
                "exhaustive": !m.capped,
                "schedules_enumerated": total,
                "schedules_executed": m.cases_done,
                "distinct_observed_outcomes": m.outcomes.len(),
                "outcomes": m.outcomes,
                "counters": m.counters,
                "request_alphabet": requests().iter().map(|o| serde_json::to_value(o).unwrap()).collect::<Vec<_>>(),
                "rule": "schedule = (configuration, pre-state, arrival order of a multiset of conflicting requests); all multisets of the stated sizes and all their distinct arrival orders; each is executed on a real database with the futures first-polled in arrival order",
            }),
            vec![
                "the writer thread consumes a FIFO channel: interleavings of the clients below the channel send collapse to the arrival order, which the harness fixes by first-polling the futures in order from one thread".into(),
                "where syncs fall is varied through the sync mode (every write / timer / every 2 events), not enumerated per instruction".into(),
            ],
        )
    })
}
